# C20: "column headers show the stored names" (quantifier: "all vectors and tables of every ...
#       name pattern"; the constructors accept non-string names and an earlier fix made repr "show
#       them by their repr").
#
# The display code tests names for truth instead of `is not None`:  _repr_vector has `if v._name:`
# and _compute_headers has `disp = col._name or ""` / `if col._name:`.  A stored name that is falsy
# but not None - 0, False, 0.0, () - is therefore not shown: the vector prints without a header,
# and in a table the column named 0 is printed under the header '' (the repr of the EMPTY STRING, a
# different name), with the dot row advertising .col0_ although dir(t) advertises the accessor c0.
import sys, warnings
warnings.simplefilter('ignore')
from serif import Vector, Table

bad = 0
v = Vector([1, 2], name=0)
r = repr(v)
print(r); print('stored name:', repr(v.name))
if '0' not in r.split('\n')[0]:
    print('-> vector header does not show the stored name 0'); bad += 1
t = Table({0: [1, 2], 'a': [3, 4]})
r = repr(t)
print(r); print('stored names:', t.column_names(), ' accessors from dir():', [x for x in dir(t) if x in ('c0', 'col0_', 'a')])
first = r.split('\n')[0]
if "''" in first and '0' not in first:
    print("-> the column named 0 is shown under the header '' (empty string)"); bad += 1
print(repr(Table({5: [1, 2], 'a': [3, 4]})).split('\n')[0], '   <- a truthy int name IS shown')
sys.exit(1 if bad else 0)
