# C07: "v[mask] keeps exactly the positions where the mask is True ... On tables the same row
#       selection is applied to every column alike"  (quantifier: "all boolean masks of the right
#       and of the wrong length")
#
# Vector.__getitem__ ends with `raise SerifTypeError(...)` for a key it does not accept (for
# instance a boolean vector whose dtype is nullable, <bool?>, which is documented as "not accepted
# as a mask").  Table.__getitem__ has no such final branch: for the very same key it falls off the
# end of the method and RETURNS None - no exception, no table.  So the refusal that every column
# would give is silently swallowed at table level:  t[m] is None, and the error only shows up later
# as "'NoneType' object has no attribute ...".  The same happens for the hand-written empty mask of
# a zero-row table (t[[]], t[Vector([])]) and for a list of row positions (v[[0, 2]] works on a
# vector, t[[0, 2]] is None although t[Vector([0, 2])] works).
import sys, warnings
warnings.simplefilter('ignore')
from serif import Vector, Table

t = Table({'a': [1, 2, 3], 'flag': [True, None, False]})
bad = 0

def outcome(f):
    try:
        r = f()
        return 'returned ' + (type(r).__name__ if r is not None else 'None')
    except Exception as e:
        return 'raised ' + type(e).__name__

m = t.flag                                   # a <bool?> column used as a mask
print("mask dtype:", m.schema())
o_vec = outcome(lambda: t.a[m]); o_tab = outcome(lambda: t[m])
print("t.a[m] :", o_vec); print("t[m]   :", o_tab)
bad += o_tab == 'returned None'

print("plain bool mask:", outcome(lambda: t[Vector([True, False, True])]))

o = outcome(lambda: t[[0, 2]]); print("t[[0, 2]] :", o, "   (t.a[[0, 2]] :", outcome(lambda: t.a[[0, 2]]), ")")
bad += o == 'returned None'
e = Table({'a': [], 'b': []})
o = outcome(lambda: e[[]]); print("zero-row table, mask []        :", o); bad += o == 'returned None'
o = outcome(lambda: e[Vector([])]); print("zero-row table, mask Vector([]):", o); bad += o == 'returned None'
o = outcome(lambda: t[1.5]); print("t[1.5] :", o); bad += o == 'returned None'
sys.exit(1 if bad else 0)
