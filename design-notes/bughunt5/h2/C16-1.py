# C16: "A write that changes any element to an unequal value (other than pairs Python's own
#       hash() cannot tell apart, such as -1 and -2) changes the fingerprint of the vector and of
#       every table containing it"
#
# Vector._hash_element seeds the hash of a container-valued element with
#   (1 if set, 2 if tuple, 3 if list) + 3 * len(items)
# and then folds the items in.  For an EMPTY container nothing is folded in, so the element hash
# is the bare seed:  set() -> 1,  () -> 2,  [] -> 3.  Those are exactly hash(1) (== hash(True) ==
# hash(1.0)), hash(2) and hash(3).  Replacing the cell () by the int 2, [] by 3 or set() by 1 / True
# therefore leaves fingerprint() of the vector - and of a table holding it - unchanged, although
# the values are unequal and Python's own hash tells them apart (hash(()) != hash(2); lists and
# sets are not hashable at all, so they are certainly not a pair "hash() cannot tell apart").
import sys, warnings
warnings.simplefilter('ignore')
from serif import Vector, Table

bad = 0
for old, new in [((), 2), ([], 3), (set(), 1), (set(), True), ([], 3.0)]:
    v = Vector([old, 'x'])
    f0 = v.fingerprint()
    v[0] = new
    f1 = v.fingerprint()
    t = Table({'c': [old, 'x'], 'd': [1, 2]})
    g0 = t.fingerprint()
    t[0, 'c'] = new
    g1 = t.fingerprint()
    fresh_equal = Vector([old, 'x']).fingerprint() == Vector([new, 'x']).fingerprint()
    print(f"{old!r:6} -> {new!r:5}: vector fp unchanged={f0 == f1}  table fp unchanged={g0 == g1}  "
          f"fresh vectors collide={fresh_equal}  (old == new: {old == new})")
    if f0 == f1 or g0 == g1:
        bad += 1
sys.exit(1 if bad else 0)
