# C16: "fingerprint() ... read-only operations never change it" / any vector can be fingerprinted.
# (Side finding, low severity.)  A table row t[i] is a Vector (class Row(Vector): "behaves like a
# Vector (math, logic, isinstance)") and inherits fingerprint(), but Row bypasses Vector.__init__,
# so the memo attribute _fp does not exist: row.fingerprint() raises AttributeError from inside
# the library ("'int' object has no attribute '_fp'" - the lookup even falls through to the
# dtype proxy).  Every other read-only Vector method (copy, sum, ==, slicing, repr) works on a row.
import sys, warnings
warnings.simplefilter('ignore')
from serif import Vector, Table

t = Table({'a': [1, 2, 3], 'b': [4, 5, 6]})
row = t[1]
print(type(row).__mro__[1].__name__, repr(row), 'copy ->', list(row.copy()), ' sum ->', row.sum())
try:
    fp = row.fingerprint()
    print('row.fingerprint() =', fp, ' expected', Vector([2, 5]).fingerprint())
    sys.exit(0 if fp == Vector([2, 5]).fingerprint() else 1)
except AttributeError as e:
    print('row.fingerprint() raised AttributeError:', e)
    sys.exit(1)
