import warnings, gc, io
warnings.simplefilter("ignore")
from serif import *
from serif.typing import infer_dtype
from datetime import date, datetime
def show(label, f):
    try:
        r = f()
        print(label, "->", r if not isinstance(r, Vector) or isinstance(r, Table) else (list(r), r.schema(), r.name))
    except Exception as e:
        print(label, "!!", type(e).__name__, str(e)[:100])
def tb(t): return (t.column_names(), [list(c) for c in t.cols()], [c.schema() for c in t.cols()])

print("== C08")
def f():
    v = Vector([1,2,3], name='n')
    try: v[[0, 7]] = [9, 9]
    except Exception as e: print("  err", type(e).__name__)
    return v
show("idx list bad later", f)
def f():
    v = Vector([1,2,3], name='n')
    def gen():
        yield 5
        raise RuntimeError("boom")
    try: v[0:2] = gen()
    except Exception as e: print("  err", type(e).__name__, e)
    return v
show("gen raising", f)
def f():
    v = Vector([1,2,3], name='n')
    try: v[0:2] = (x for x in [7,8])
    except Exception as e: print("  err", type(e).__name__, e)
    return v
show("gen value", f)
def f():
    v = Vector([1,2,3], name='n')
    try: v[0:3] = [1.5, 2, 'a']
    except Exception as e: print("  err", type(e).__name__, e)
    return v
show("promote then incompatible", f)
def f():
    v = Vector([1,2,3], name='n')
    try: v[0:3] = ['a', 1.5, 2]
    except Exception as e: print("  err", type(e).__name__, e)
    return v
show("incompatible first", f)
def f():
    v = Vector([1,2,3], name='n')
    v[[0,0]] = [5,6]
    return v
show("dup idx", f)
def f():
    v = Vector([1,2,3], name='n')
    v[::-1] = [5,6,7]
    return v
show("rev slice", f)
def f():
    v = Vector([1,2,3], name='n')
    v[0:2] = [5]
    return v
show("slice len mismatch", f)
def f():
    v = Vector([1,2,3], name='n')
    v[True] = 5
    return v
show("bool key", f)
def f():
    v = Vector([1,2,3], name='n')
    v[[True,False,True]] = [8,9]
    return v
show("mask seq", f)
def f():
    v = Vector([1,2,3], name='n')
    v[(0,1)] = 7
    return v
show("tuple key", f)
def f():
    v = Vector([1,2,3], name='n')
    v[[]] = 7
    return v
show("empty list key", f)
def f():
    v = Vector([1,2,3], name='n')
    v[1] = [4,5]
    return v
show("int key seq value", f)
def f():
    v = Vector([1,2,3], name='n')
    v[1] = 'ab'
    return v
show("int key str value", f)
def f():
    v = Vector(['a','b'], name='n')
    v[0:2] = 'xy'
    return v
show("str slice str value", f)
# table setitem
def f():
    t = Table({'a':[1,2,3],'b':['x','y','z']})
    try: t[0] = [9, 5]
    except Exception as e: print("  err", type(e).__name__, e)
    return tb(t)
show("row assign partial fail", f)
def f():
    t = Table({'a':[1,2,3],'b':['x','y','z']})
    try: t[0:2, ('a','b')] = [[7,8],[1,2]]
    except Exception as e: print("  err", type(e).__name__, e)
    return tb(t)
show("region partial fail", f)
def f():
    t = Table({'a':[1,2,3],'b':['x','y','z']})
    t[0, 'a'] = 1.5
    return tb(t)
show("cell promote", f)
def f():
    t = Table({'a':[1,2,3],'b':['x','y','z']})
    try: t.rename_columns(['a','zz'],['q','r'])
    except Exception as e: print("  err", type(e).__name__, e)
    return t.column_names()
show("rename_columns fail", f)
def f():
    t = Table({'a':[1,2,3],'b':['x','y','z']})
    t.rename_columns(['a','q'],['q','r'])
    return t.column_names()
show("rename_columns chain", f)
def f():
    t = Table({'a':[1,2,3],'b':['x','y','z']})
    t.rename_columns(['a','b'],['b','a'])
    return t.column_names()
show("rename_columns swap", f)
def f():
    t = Table({'a':[1,2,3],'b':['x','y','z']})
    t[5, 'a'] = 1
    return tb(t)
show("cell OOR", f)
def f():
    t = Table({'a':[1,2,3],'b':['x','y','z']})
    t[0, 7] = 1
    return tb(t)
show("col OOR", f)

print("== C09/C10")
L = Table({'k':[1,None,2,1],'x':['a','b','c','d']}); R = Table({'k':[None,1,1,3],'y':[5,6,7,8]})
show("inner", lambda: tb(L.inner_join(R,'k','k',expect='many_to_many')))
show("left", lambda: tb(L.join(R,'k','k',expect='many_to_many')))
show("full", lambda: tb(L.full_join(R,'k','k',expect='many_to_many')))
L2 = Table({'k':[None,1],'x':['a','b']})
show("first None key", lambda: tb(L2.inner_join(R,'k','k',expect='many_to_many')))
E = Table({'k':[],'y':[]})
show("right empty inner", lambda: tb(L.inner_join(E,'k','k',expect='many_to_many')))
show("right empty left", lambda: tb(L.join(E,'k','k',expect='many_to_many')))
show("left empty", lambda: tb(E.join(L,'k','k',expect='many_to_many')))
show("left empty full", lambda: tb(E.full_join(L,'k','y',expect='many_to_many')))
show("inner no match", lambda: tb(Table({'k':[1]}).inner_join(Table({'k':[2]}),'k','k')))
show("bad expect", lambda: L.inner_join(R,'k','k',expect='foo'))
show("multi key", lambda: tb(Table({'a':[1,1],'b':['x','y']}).inner_join(Table({'a':[1,1],'b':['y','z'],'v':[1,2]}),['a','b'],['a','b'])))
show("key by vector", lambda: tb(L.inner_join(R,L.k,R.k,expect='many_to_many')))
show("key by external vector", lambda: tb(L.inner_join(R,Vector([1,1,1,1]),Vector([1,2,2,2]),expect='many_to_many')))
show("bool keys", lambda: tb(Table({'k':[True,False]}).inner_join(Table({'k':[True,True]}),'k','k',expect='many_to_many')))
show("str keys", lambda: tb(Table({'k':['a','b']}).join(Table({'k':['b','c'],'v':[1,2]}),'k','k')))
