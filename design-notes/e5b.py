import warnings, random, gc, sys
warnings.simplefilter("ignore")
exec(open('e5.py').read().split("for hist in range(1500):")[0])
# replay hist 1443 only with tracing
random.seed(5)
src=open('e5.py').read()
body=src.split("for hist in range(1500):")[1].split("print(stat")[0]
# instrument: record ops for target history
code="for hist in range(1444):\n"+body
code=code.replace("        op=random.choice([","        op=random.choice([",1)
code=code.replace("        try:\n            if op=='new'","        if hist==1443: print('step',step,op,[ (type(o).__name__, len(o), id(o._underlying)) for o in live])\n        try:\n            if op=='new'",1)
code=code.replace("note('spurious-refusal',op,len(v),hist,step)","note('spurious-refusal',op,len(v),hist,step); print('REFUSED', id(v._underlying), [(type(r()).__name__ if r() is not None else None, id(r()) if r() else None) for r in _ALIAS_TRACKER._registry.get(id(v._underlying),[])], 'v is', id(v), [ (id(w), type(w).__name__) for w in all_vectors(live)])")
exec(code)
