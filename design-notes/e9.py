import warnings, random, itertools, math, operator
warnings.simplefilter("ignore")
from serif import *
from serif.errors import *
from datetime import date, datetime, timedelta
bad=[]
def note(*a):
    if len(bad) < 40: bad.append(a)
random.seed(9)
pools={'bool':[True,False],'int':[0,1,-2,3],'float':[0.5,-1.5,2.0],'complex':[1j,2+1j],'str':['a','bc',''],'date':[date(2020,1,31),date(2021,3,1)],'datetime':[datetime(2020,1,1,5)],'td':[timedelta(days=1)]}
ladder={bool:[bool],int:[bool,int],float:[bool,int,float],complex:[bool,int,float,complex],datetime:[datetime]}
def truthful(v,ctx):
    s=v.schema()
    if s is None: return
    for x in v:
        if x is None:
            if not s.nullable: note('untruthful-none',ctx,list(v),s); return
        elif s.kind is object: continue
        elif not (type(x) is s.kind or type(x) in ladder.get(s.kind,[])): note('untruthful',ctx,list(v),s); return
ops={'+':operator.add,'-':operator.sub,'*':operator.mul,'/':operator.truediv,'//':operator.floordiv,'%':operator.mod,'**':operator.pow}
cmps={'==':operator.eq,'!=':operator.ne,'<':operator.lt,'<=':operator.le,'>':operator.gt,'>=':operator.ge}
def same(a,b):
    if a is None or b is None: return a is b
    if isinstance(a,float) and isinstance(b,float) and math.isnan(a) and math.isnan(b): return True
    return type(a)==type(b) and a==b
stat={'ok':0,'pyerr':0,'serr':0}
for trial in range(60000):
    ka=random.choice(['bool','int','float','complex','str','date','datetime']); kb=random.choice(list(pools))
    n=random.choice([0,1,2,3])
    A=[None if random.random()<0.2 else random.choice(pools[ka]) for _ in range(n)]
    form=random.choice(['vec','scalar','list','rscalar','rlist'])
    if form in ('scalar','rscalar'): B=random.choice(pools[kb]); Bs=[B]*n
    else:
        m=n if random.random()<0.85 else n+1
        Bs=[None if random.random()<0.15 else random.choice(pools[kb]) for _ in range(m)]; B=Bs
    va=Vector(A,name='a')
    if form=='vec':
        if not Bs: continue
        B=Vector(Bs,name='b')
    sym=random.choice(list(ops)+list(cmps)+['neg','pos','abs'])
    before=list(va)
    if sym in ('neg','pos','abs'):
        f={'neg':operator.neg,'pos':operator.pos,'abs':operator.abs}[sym]
        try: exp=[None if x is None else f(x) for x in A]; pyok=True
        except TypeError: pyok=False
        try: r=f(va)
        except Exception as e:
            if pyok: note('unary-exc',sym,A,type(e).__name__)
            continue
        if pyok:
            if len(r)!=n or not all(same(x,y) for x,y in zip(r,exp)): note('unary',sym,A,list(r),exp)
            truthful(r,(sym,A))
        continue
    if sym in ops:
        f=ops[sym]
        refl=form in ('rscalar','rlist')
        try:
            if len(Bs)!=n: raise IndexError
            exp=[None if (x is None or y is None) else (f(y,x) if refl else f(x,y)) for x,y in zip(A,Bs)]; pyok=True
        except IndexError: pyok='len'
        except (TypeError,ZeroDivisionError,OverflowError,ValueError) as e: pyok=False
        try:
            r=f(B,va) if refl else f(va,B)
        except Exception as e:
            if pyok is True: note('binop-exc',sym,form,A,Bs,type(e).__name__,str(e)[:60])
            stat['serr']+=1; continue
        if pyok=='len': note('len-mismatch-accepted',sym,form,A,Bs,list(r)); continue
        if pyok is False: stat['pyerr']+=1; continue
        stat['ok']+=1
        if not isinstance(r,Vector): note('not-vector',sym,form,A,Bs,type(r)); continue
        if len(r)!=n or not all(same(x,y) for x,y in zip(r,exp)): note('binop',sym,form,A,Bs,list(r),exp)
        truthful(r,(sym,form,A,Bs))
        if r.name is not None: note('name-kept',sym,form)
        if list(va)!=before: note('operand-mutated')
    else:
        f=cmps[sym]; refl=form in ('rscalar','rlist')
        def pc(x,y):
            if x is None or y is None: return False
            return bool(f(y,x) if refl else f(x,y))
        try:
            if len(Bs)!=n: raise IndexError
            exp=[pc(x,y) for x,y in zip(A,Bs)]; pyok=True
        except IndexError: pyok='len'
        except TypeError: pyok=False
        try: r=f(B,va) if refl else f(va,B)
        except Exception as e:
            if pyok is True: note('cmp-exc',sym,form,ka,kb,A,Bs,type(e).__name__,str(e)[:50])
            continue
        if pyok=='len': note('cmp-len-accepted',sym,form,A,Bs); continue
        if pyok is False: continue
        if not isinstance(r,Vector): note('cmp-not-vector',sym,form,ka,kb,A,Bs,r); continue
        if list(r)!=exp: note('cmp',sym,form,A,Bs,list(r),exp)
        s=r.schema()
        if n and (s is None or s.kind is not bool or s.nullable): note('cmp-dtype',sym,s)
print(stat,'bad',len(bad))
from collections import Counter
c=Counter(b[0] for b in bad); print(c)
seen=Counter()
for b in bad:
    if seen[b[0]]<4: print(b); seen[b[0]]+=1
