namespace J
variable {K : Type} [DecidableEq K]

/-- dict as insertion-ordered association list: key ↦ bucket of row indices (ascending) -/
abbrev Index (K : Type) := List (K × List Nat)

def Index.get (ix : Index K) (k : K) : Option (List Nat) :=
  match ix with
  | [] => none
  | (k', b) :: rest => if k' = k then some b else Index.get rest k

def Index.push (ix : Index K) (k : K) (i : Nat) : Index K :=
  match ix with
  | [] => [(k, [i])]
  | (k', b) :: rest => if k' = k then (k', b ++ [i]) :: rest else (k', b) :: Index.push rest k i

/-- build loop: for row_idx in range(n): bucket append -/
def buildFrom (keys : List K) (start : Nat) (ix : Index K) : Index K :=
  match keys with
  | [] => ix
  | k :: ks => buildFrom ks (start+1) (ix.push k start)

def build (keys : List K) : Index K := buildFrom keys 0 []

/-- spec bucket: indices (offset by start) whose key equals k -/
def matchesFrom (keys : List K) (start : Nat) (k : K) : List Nat :=
  match keys with
  | [] => []
  | k' :: ks => if k' = k then start :: matchesFrom ks (start+1) k else matchesFrom ks (start+1) k

def bucketOf (ix : Index K) (k : K) : List Nat := (ix.get k).getD []

theorem get_push_same (ix : Index K) (k : K) (i : Nat) :
    bucketOf (ix.push k i) k = bucketOf ix k ++ [i] := by
  induction ix with
  | nil => simp [Index.push, bucketOf, Index.get]
  | cons hd tl ih =>
    obtain ⟨k', b⟩ := hd
    by_cases h : k' = k
    · simp [Index.push, bucketOf, Index.get, h]
    · simpa [Index.push, bucketOf, Index.get, h] using ih

theorem get_push_other (ix : Index K) (k k2 : K) (i : Nat) (hne : k ≠ k2) :
    bucketOf (ix.push k i) k2 = bucketOf ix k2 := by
  induction ix with
  | nil => simp [Index.push, bucketOf, Index.get, hne]
  | cons hd tl ih =>
    obtain ⟨k', b⟩ := hd
    by_cases h : k' = k
    · subst h; simp [Index.push, bucketOf, Index.get, hne]
    · by_cases h2 : k' = k2
      · subst h2; simp [Index.push, bucketOf, Index.get, h]
      · simpa [Index.push, bucketOf, Index.get, h, h2] using ih

theorem bucket_buildFrom (keys : List K) (start : Nat) (ix : Index K) (k : K) :
    bucketOf (buildFrom keys start ix) k = bucketOf ix k ++ matchesFrom keys start k := by
  induction keys generalizing start ix with
  | nil => simp [buildFrom, matchesFrom]
  | cons k' ks ih =>
    simp only [buildFrom, matchesFrom]
    rw [ih]
    by_cases h : k' = k
    · subst h; simp [get_push_same]
    · simp [h, get_push_other _ _ _ _ h]

theorem bucket_build (keys : List K) (k : K) :
    bucketOf (build keys) k = matchesFrom keys 0 k := by
  have := bucket_buildFrom keys 0 ([] : Index K) k
  simpa [build, bucketOf, Index.get] using this

/-- probe loop of inner_join: emits (left_idx, right_idx) pairs -/
def probeFrom (ix : Index K) (lkeys : List K) (start : Nat) : List (Nat × Nat) :=
  match lkeys with
  | [] => []
  | k :: ks => (bucketOf ix k).map (fun j => (start, j)) ++ probeFrom ix ks (start+1)

def innerJoinAlgo (lkeys rkeys : List K) : List (Nat × Nat) := probeFrom (build rkeys) lkeys 0

/-- nested-loop specification -/
def innerSpecFrom (lkeys rkeys : List K) (start : Nat) : List (Nat × Nat) :=
  match lkeys with
  | [] => []
  | k :: ks => (matchesFrom rkeys 0 k).map (fun j => (start, j)) ++ innerSpecFrom ks rkeys (start+1)

theorem inner_join_refines (lkeys rkeys : List K) :
    innerJoinAlgo lkeys rkeys = innerSpecFrom lkeys rkeys 0 := by
  unfold innerJoinAlgo
  generalize 0 = s
  induction lkeys generalizing s with
  | nil => rfl
  | cons k ks ih => simp [probeFrom, innerSpecFrom, bucket_build, ih]

example : innerJoinAlgo [1, 2, 1] [1, 1, 3, 2] = [(0,0),(0,1),(1,3),(2,0),(2,1)] := by decide
end J
