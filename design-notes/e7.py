import warnings, random, itertools, io, csv, math, re
warnings.simplefilter("ignore")
from serif import *
import serif
from serif.typing import infer_dtype
bad=[]
def note(*a):
    if len(bad) < 30: bad.append(a)
random.seed(7)
cells=['1',' 7 ','1_000','0x10','1e3','nan','inf','+5','-0','١٢','', '  ','a','a,b','he said "hi"','l1\nl2','é','True','1.5.2','.5','5.','1e','--1',' x ']
def classify(s):
    if not s or s.strip()=='' : return None
    s=s.strip()
    try: return int(s)
    except ValueError: pass
    try: return float(s)
    except ValueError: pass
    return s
def same(a,b):
    if isinstance(a,float) and isinstance(b,float) and math.isnan(a) and math.isnan(b): return True
    return type(a)==type(b) and a==b
n=0
for trial in range(6000):
    ncols=random.randint(1,3); nrec=random.randint(0,3)
    has_header=random.random()<0.7
    delim=random.choice([',',';','\t','|'])
    header=[random.choice(['a','b','a','', 'x y','1']) for _ in range(ncols)]
    recs=[[random.choice(cells) for _ in range(random.choice([ncols,ncols,max(0,ncols-1),ncols+1]))] for _ in range(nrec)]
    buf=io.StringIO(newline='')
    w=csv.writer(buf, delimiter=delim)
    if has_header: w.writerow(header)
    for r in recs: w.writerow(r)
    text=buf.getvalue()
    lex=list(csv.reader(io.StringIO(text,newline=''), delimiter=delim))
    n+=1
    try:
        t=read_csv(io.StringIO(text,newline=''), delimiter=delim, has_header=has_header)
    except Exception as e:
        note('exc',repr(text),has_header,type(e).__name__,str(e)[:60]); continue
    if not lex:
        if len(t.cols())!=0: note('empty-not-empty',repr(text))
        continue
    if has_header: hdr=lex[0]; data=lex[1:]
    else: hdr=['col_%d'%i for i in range(len(lex[0]))]; data=lex
    if t.column_names()!=hdr: note('names',repr(text),t.column_names(),hdr); continue
    if len(hdr)>0 and len(t)!=len(data): note('nrows',repr(text),len(t),len(data)); continue
    for c in range(len(hdr)):
        col=list(t.cols()[c])
        exp=[classify(r[c]) if c<len(r) else None for r in data]
        if len(col)!=len(exp) or not all(same(x,y) for x,y in zip(col,exp)): note('cells',repr(text),c,col,exp)
        if data:
            sch=t.cols()[c].schema()
            if repr(sch)!=repr(infer_dtype(exp)): note('dtype',repr(text),c,sch,infer_dtype(exp))
print('csv',n,'bad',len(bad))
from collections import Counter
print(Counter(b[0] for b in bad))
for b in bad[:10]: print(b)
