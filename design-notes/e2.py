# C09-C14 exploration on patched tree
import warnings, itertools, random, sys, math
warnings.simplefilter("ignore")
from serif import *
from serif.errors import *
bad=[]
def note(*a):
    if len(bad) < 40: bad.append(a)
def rows(t):
    cols=[list(c) for c in t.cols()]
    return [tuple(c[i] for c in cols) for i in range(len(cols[0]))] if cols else []
def mk(keys_cols, payload, names):
    cols = [Vector(list(c), name=nm) for c, nm in zip(list(keys_cols)+list(payload), names)]
    return Table(cols)
random.seed(2)
keypool=[0,1,None]
stat={'joins':0,'raised':0}
for trial in range(6000):
    nl, nr = random.randint(0,4), random.randint(0,4)
    nk = random.randint(1,2)
    Lk=[[random.choice(keypool) for _ in range(nl)] for _ in range(nk)]
    Rk=[[random.choice(keypool) for _ in range(nr)] for _ in range(nk)]
    Lp=[['L%d'%i for i in range(nl)]]; Rp=[['R%d'%i for i in range(nr)]]
    if nl==0 or nr==0: continue
    L=mk(Lk,Lp,['k%d'%i for i in range(nk)]+['lp']); R=mk(Rk,Rp,['k%d'%i for i in range(nk)]+['rp'])
    lkeys=[tuple(c[i] for c in Lk) for i in range(nl)]; rkeys=[tuple(c[i] for c in Rk) for i in range(nr)]
    lrows=rows(L); rrows=rows(R)
    on=['k%d'%i for i in range(nk)]
    inner=[lrows[i]+rrows[j] for i in range(nl) for j in range(nr) if lkeys[i]==rkeys[j]]
    left=[]; 
    for i in range(nl):
        m=[j for j in range(nr) if lkeys[i]==rkeys[j]]
        left += [lrows[i]+rrows[j] for j in m] if m else [lrows[i]+(None,)*len(rrows[0])]
    matched={j for i in range(nl) for j in range(nr) if lkeys[i]==rkeys[j]}
    full=left+[(None,)*len(lrows[0])+rrows[j] for j in range(nr) if j not in matched]
    lu=len(set(lkeys))==len(lkeys); ru=len(set(rkeys))==len(rkeys)
    for kind,exp in (('inner_join',inner),('join',left),('full_join',full)):
        for ex in ('one_to_one','many_to_one','one_to_many','many_to_many'):
            need_l = ex in ('one_to_one','one_to_many'); need_r = ex in ('one_to_one','many_to_one')
            should_raise = (need_l and not lu) or (need_r and not ru)
            stat['joins']+=1
            try:
                res=getattr(L,kind)(R,on if nk>1 else on[0],on if nk>1 else on[0],expect=ex)
                if should_raise: note('should-raise',kind,ex,lkeys,rkeys); continue
                got=rows(res)
                if got!=exp: note('rows',kind,ex,lkeys,rkeys,got,exp)
                if exp and res.column_names()!=L.column_names()+R.column_names(): note('names',kind,res.column_names())
            except SerifValueError as e:
                stat['raised']+=1
                if not should_raise: note('spurious-raise',kind,ex,lkeys,rkeys,str(e)[:50])
            except SerifTypeError as e:
                if 'mismatched dtypes' not in str(e): note('exc',kind,ex,lkeys,rkeys,type(e).__name__,str(e)[:80])
            except Exception as e:
                note('exc',kind,ex,lkeys,rkeys,type(e).__name__,str(e)[:80])
print(stat, 'bad', len(bad))
# aggregate / window
stat={'agg':0}
for trial in range(4000):
    n=random.randint(1,6); nk=random.randint(1,2)
    K=[[random.choice(keypool) for _ in range(n)] for _ in range(nk)]
    V=[random.choice([1,2,3,None]) for _ in range(n)]
    t=mk(K,[V],['g%d'%i for i in range(nk)]+['v'])
    keys=[tuple(c[i] for c in K) for i in range(n)]
    order=[]; 
    for k in keys:
        if k not in order: order.append(k)
    groups={k:[V[i] for i in range(n) if keys[i]==k] for k in order}
    def stdev(c):
        if len(c)<2: return None
        m=sum(c)/len(c); return (sum((x-m)**2 for x in c)/(len(c)-1))**0.5
    def ref(k):
        c=[x for x in groups[k] if x is not None]
        return (sum(c), (sum(c)/len(c) if c else None), (min(c) if c else None), (max(c) if c else None), len(c), stdev(c))
    over=['g%d'%i for i in range(nk)]
    calls=[]
    def rec(vals): calls.append(tuple(vals)); return len(vals)
    try:
        a=t.aggregate(over=over if nk>1 else over[0], sum_over='v', mean_over='v', min_over='v', max_over='v', count_over='v', stdev_over='v', apply={'n':('v',rec)})
    except Exception as e:
        note('agg-exc', keys, V, type(e).__name__, str(e)[:80]); continue
    stat['agg']+=1
    got=rows(a); exp=[k+ref(k)+(len(groups[k]),) for k in order]
    def close(x,y):
        if isinstance(x,float) and isinstance(y,float): return math.isclose(x,y,rel_tol=1e-9)
        return x==y and type(x)==type(y) or (x==y)
    if len(got)!=len(exp) or any(not all(close(p,q) for p,q in zip(g,e)) for g,e in zip(got,exp)): note('agg',keys,V,got,exp)
    if calls!=[tuple(groups[k]) for k in order]: note('apply-calls',keys,V,calls)
    w=t.window(over=over if nk>1 else over[0], sum_over='v', mean_over='v', min_over='v', max_over='v', count_over='v', stdev_over='v')
    gw=rows(w); ew=[keys[i]+ref(keys[i]) for i in range(n)]
    if len(gw)!=n or any(not all(close(p,q) for p,q in zip(g,e)) for g,e in zip(gw,ew)): note('win',keys,V,gw,ew)
    # vector reductions vs single group
    vv=Vector(V)
    c=[x for x in V if x is not None]
    if c:
        try:
            r=(vv.sum(), vv.mean(), vv.min(), vv.max(), vv.stdev())
            e=(sum(c), sum(c)/len(c), min(c), max(c), stdev(c))
            if not all(close(p,q) for p,q in zip(r,e)): note('vecred',V,r,e)
        except Exception as ex: note('vecred-exc',V,type(ex).__name__)
print(stat,'bad',len(bad))
# sort
stat={'sort':0}
for trial in range(6000):
    n=random.randint(1,6); nk=random.randint(1,3)
    K=[[random.choice([0,1,2,None]) for _ in range(n)] for _ in range(nk)]
    t=mk(K,[list(range(n))],['s%d'%i for i in range(nk)]+['pos'])
    rev=[random.random()<0.5 for _ in range(nk)]; na_last=random.random()<0.5
    res=t.sort_by(['s%d'%i for i in range(nk)], reverse=rev if random.random()<0.7 else rev[0], na_last=na_last)
    if isinstance(rev,list) and res is not None: pass
    stat['sort']+=1
    rr=rows(res)
    # perm
    if sorted(r[-1] for r in rr)!=list(range(n)): note('perm',K,rr); continue
    if any(r!=tuple(c[r[-1]] for c in K)+(r[-1],) for r in rr): note('cells',K,rr)
from collections import Counter
print(Counter(b[0] for b in bad))
seen=set()
for b in bad:
    if b[0] not in seen or len(seen)<3:
        print(b); seen.add(b[0])
