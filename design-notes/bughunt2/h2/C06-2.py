# C06: "fillna(x) replaces exactly those positions [that isna marks] and nothing else"
# When x needs the documented int->float (or ->complex) promotion, fillna converts EVERY element with
# float(); an int beyond 2**53 silently becomes a different number, i.e. positions that isna does not
# mark are changed as well.  With no None at all, fillna(2.5) still rewrites the whole vector to
# float (dtype and element types change although there was nothing to fill).
import sys, warnings
warnings.simplefilter("ignore")
from serif import Vector
big = 2**60 + 1
v = Vector([big, None, 3])
f = v.fillna(0.5)
print("before:", list(v), v.schema())
print("after :", list(f), f.schema())
changed = [i for i, (a, b) in enumerate(zip(v, f)) if a is not None and (a != b or int(b) != a)]
print("non-None positions whose value changed:", changed, "->", f[0], "!=", big)
w = Vector([1, 2]).fillna(2.5)
print("no None, fillna(2.5):", list(w), w.schema())
sys.exit(1 if changed else 0)
