# C06: "A None element ... makes every comparison at its position False" (all operators, comparisons)
# Comparing a table with ITSELF (t == t, t != t, t <= t ...) does not produce the column-wise boolean
# table that t == t.copy()/another equal table produces: Table._elementwise_compare calls
# _check_duplicate -> deepcopy(table), and Table.__getattr__ recurses without end on the half-built
# copy -> RecursionError.  (Vector == itself works; t + t works.)
import sys, warnings
warnings.simplefilter("ignore")
from serif import Table
t = Table({'a': [1, None, 3], 'b': [1.5, 2.5, None]})
u = Table({'a': [1, None, 3], 'b': [1.5, 2.5, None]})
print("t == u ->", [list(c) for c in (t == u).cols()])
try:
    r = t == t
    print("t == t ->", [list(c) for c in r.cols()])
    sys.exit(0)
except RecursionError as e:
    print("t == t -> RecursionError")
    sys.exit(1)
