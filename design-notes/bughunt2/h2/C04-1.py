# C04: "The dtype inferred for a sequence depends only on which Python types occur in it and on
#       whether None occurs - never on element order, position of the first None, or length"
#       (quantifier: all finite sequences over None, bool, int, ...)
# A Vector (or a table Row) IS such a finite sequence, but it cannot be used as constructor input:
# Vector.__new__ evaluates `if initial and all(...)`, and bool(Vector) raises TypeError.  So
# Vector(v), Vector(v, name=...), Vector(row) and Table({'a': v}) (Table.__init__ wraps every dict
# value in Vector(values, name=key)) all die with "Vector cannot be used in a boolean context",
# although the same elements as a list/tuple/generator are inferred normally and
# `t >> {'a': v}` (which special-cases Vector values) works.
import sys, warnings
warnings.simplefilter("ignore")
from serif import Vector, Table
bad = 0
v = Vector([1, None, 2.5], name="x")
for label, f in [("Vector(v)", lambda: Vector(v)),
                 ("Vector(v, name='y')", lambda: Vector(v, name="y")),
                 ("Table({'a': v})", lambda: Table({'a': v})),
                 ("Vector(table_row)", lambda: Vector(Table({'a': [1, 2], 'b': [3, 4]})[0])),
                 ("Vector(list(v))  [control]", lambda: Vector(list(v))),
                 ("Vector(iter(v))  [control]", lambda: Vector(iter(v))),
                 ("Table() >> {'a': v} [control]", lambda: Table({'z': [0, 0, 0]}) >> {'a': v})]:
    try:
        r = f()
        print(f"{label}: ok ->", r.schema() if not isinstance(r, Table) else r.column_names())
    except Exception as e:
        if "control" not in label:
            bad += 1
        print(f"{label}: RAISED {type(e).__name__}: {str(e)[:70]}")
sys.exit(1 if bad else 0)
