# Crashes / holes found on the way that do not map cleanly onto one of the seven property texts
# (reported as asides, not as property violations).  Exits 1 if any still reproduces.
import sys, warnings
warnings.simplefilter("ignore")
from serif import Vector, Table
bad = 0
def probe(label, f, ok=lambda r: True):
    global bad
    try:
        r = f()
        if ok(r): print("ok     ", label)
        else: bad += 1; print("WRONG  ", label, "->", r if not isinstance(r, Table) else [list(c) for c in r.cols()])
    except Exception as e:
        bad += 1; print("RAISED ", label, "->", type(e).__name__, str(e)[:70])
probe("Vector.new(5, 0, typesafe=True)", lambda: Vector.new(5, 0, typesafe=True))           # AttributeError: DataType.with_default
probe("Vector(v for v in [Vector([1,2]), Vector([3,4])])", lambda: Vector(v for v in [Vector([1, 2]), Vector([3, 4])]))  # generator not subscriptable
probe("Vector([]) >> Vector([])", lambda: Vector([]) >> Vector([]))                          # NoneType has no attribute kind
probe("Vector([1,2,None]) @ Vector([1,2,3])", lambda: Vector([1, 2, None]) @ Vector([1, 2, 3]))  # None neither skipped nor propagated
t = Table({'a': [1, None], 'b': ['x', None]})
probe("Table.fillna(0) fills", lambda: t.fillna(0), ok=lambda r: all(x is not None for c in r.cols() for x in c))  # silently a no-op
probe("Table.dropna() drops", lambda: t.dropna(), ok=lambda r: len(r) == 1)                   # silently a no-op
probe("Table.max() with an all-None column", lambda: Table({'a': [None, None], 'b': [1, 2]}).max())  # ValueError; sum/mean/stdev cope
probe("copy.deepcopy(table)", lambda: __import__("copy").deepcopy(t))                          # RecursionError (same root cause as t == t)
sys.exit(1 if bad else 0)
