# C03: "Equivalently, writing any element back into its own position is always accepted and never
#       changes the dtype."
# Vector.__init__ stores tuple(initial); for an input that already IS a tuple this is the very same
# object, so two vectors built independently from one tuple share their storage and the alias tracker
# refuses every write to either of them (AliasError).  CPython folds a tuple literal into one constant,
# so even `Vector((1, 2, 3))` executed twice (a helper function, a loop) yields two unwritable vectors.
import sys, warnings
warnings.simplefilter("ignore")
from serif import Vector

def make():
    return Vector((1, 2, 3))      # tuple literal -> one shared constant object

bad = 0
a = make(); b = make()
try:
    a[0] = a[0]
    print("literal: write-back accepted")
except Exception as e:
    bad += 1
    print("literal: a[0] = a[0] REFUSED:", type(e).__name__, str(e).splitlines()[0])

row = (1.5, None, 2.5)           # e.g. a DB row
x = Vector(row, name="x"); y = Vector(row, name="y")
try:
    y[1] = 0.0
    print("same tuple: write accepted")
except Exception as e:
    bad += 1
    print("same tuple: y[1] = 0.0 REFUSED:", type(e).__name__, str(e).splitlines()[0])
# the same data passed as a list is fine
p = Vector(list(row)); q = Vector(list(row)); q[1] = 0.0
print("from lists: fine", list(q))
sys.exit(1 if bad else 0)
