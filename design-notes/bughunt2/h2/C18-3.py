# C18: "Tables built from vectors, stacked with >>, filtered, sliced, sorted or joined keep each
#       source column's stored name in order" / title "structure keeps them"
# Appending rows with << (table << table, table << row) is pure structure, but the result has lost
# EVERY column name (all None), unlike every other structural table operation.
import sys, warnings
warnings.simplefilter("ignore")
from serif import Table
t = Table({'id': [1, 2], 'name': ['a', 'b']})
u = Table({'id': [3], 'name': ['c']})
print("t.column_names()        :", t.column_names())
print("(t >> u).column_names() :", (t[0:1] >> u).column_names())
print("(t << u).column_names() :", (t << u).column_names())
print("(t << [3,'c']).column_names():", (t << [3, 'c']).column_names())
sys.exit(1 if (t << u).column_names() != ['id', 'name'] else 0)
