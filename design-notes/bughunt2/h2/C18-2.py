# C18 (title / rule): "Names propagate by fixed rules: math drops them, structure keeps them";
# docs/invariants.md #5 "Names do not propagate through math. Only copies inherit names. Derived
# vectors start unnamed."
# Unary math on a vector keeps the name, while the arithmetically identical binary forms drop it:
# -v is named, v * -1 and 0 - v are not; abs(v), +v and ~v keep it as well.
import sys, warnings
warnings.simplefilter("ignore")
from serif import Vector
v = Vector([1, -2, None], name="delta")
rows = [("-v", -v), ("+v", +v), ("abs(v)", abs(v)), ("~v", ~v), ("v * -1", v * -1), ("0 - v", 0 - v), ("v + 0", v + 0)]
for label, r in rows:
    print(f"{label:8s} name={r.name!r} values={list(r)}")
sys.exit(1 if (-v).name is not None else 0)
