# C20: "repr() of any vector or table returns a string without raising ... for every dtype and value"
# An int with more than 4300 digits (sys.get_int_max_str_digits) makes repr() of the vector/table
# raise ValueError; such values are produced by ordinary library arithmetic (Vector([2]) ** 20000)
# and by read-back of products.  (Python's own str(int) raises here too - low severity.)
import sys, warnings
warnings.simplefilter("ignore")
from serif import Vector, Table
v = Vector([2, 3]) ** 20000
bad = 0
for label, obj in [("int vector", v), ("table", Table([v])), ("float vector holding it", Vector([1.5, 0.5]) << list(v))]:
    try:
        repr(obj); print(label, "repr ok")
    except Exception as e:
        bad += 1
        print(label, "repr RAISED", type(e).__name__, str(e)[:60])
sys.exit(1 if bad else 0)
