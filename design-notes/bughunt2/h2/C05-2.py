# C05: "... the result is a new vector of the same length whose i-th element is exactly what Python
#       computes for the i-th operands in the written operand order" (all reflected forms)
# Vector.__rmul__ is implemented as self.__mul__(other): for `scalar * v` and `[..] * v` it computes
# element * scalar instead of scalar * element.  Every other reflected operator keeps the written
# order.  Invisible for the builtin types (their * is commutative), visible for any element class
# with a non-commutative product (matrices, quaternions, permutations ...).
import sys, warnings
warnings.simplefilter("ignore")
from serif import Vector
class Perm:
    """permutation of range(n); a*b = 'apply b then a' - not commutative"""
    def __init__(self, p): self.p = tuple(p)
    def __mul__(self, o):
        if not isinstance(o, Perm): return NotImplemented
        return Perm(self.p[i] for i in o.p)
    def __eq__(self, o): return isinstance(o, Perm) and self.p == o.p
    def __hash__(self): return hash(self.p)
    def __repr__(self): return f"Perm{self.p}"
a = Perm((1, 0, 2)); b = Perm((0, 2, 1)); c = Perm((2, 0, 1))
v = Vector([b, c])
got_scalar = list(a * v)
exp_scalar = [a * b, a * c]
got_list = list([a, a] * v)
print("a * v      ->", got_scalar, " python a*x_i:", exp_scalar)
print("[a,a] * v  ->", got_list)
print("v * a      ->", list(v * a), " python x_i*a:", [b * a, c * a])
bad = got_scalar != exp_scalar or got_list != exp_scalar
sys.exit(1 if bad else 0)
