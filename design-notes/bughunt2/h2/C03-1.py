# C03: "Equivalently, writing any element back into its own position is always accepted and never
#       changes the dtype."  (quantifier: vectors produced from any inferred-dtype inputs)
# A vector whose dtype was INFERRED from instances of subclasses of the ladder types (IntEnum,
# IntFlag, http.HTTPStatus, float/str/datetime subclasses ...) reports kind int/float/str/datetime
# (inference is isinstance based since the "subclass instances" fix), but validate_scalar() still
# compares type(value) exactly, so writing such an element back into its own slot is refused with
# "Cannot set int in int vector".
import sys, warnings, enum, http
warnings.simplefilter("ignore")
from serif import Vector, Table
from datetime import datetime

class Color(enum.IntEnum):
    RED = 1
    BLUE = 2
class F(float): pass
class S(str): pass
class DT(datetime): pass

bad = 0
for label, data in [("IntEnum", [Color.RED, 2, 3]), ("HTTPStatus", [http.HTTPStatus.OK, http.HTTPStatus.NOT_FOUND]),
                    ("float subclass", [F(1.5), 2.5]), ("str subclass", [S("a"), "b"]),
                    ("datetime subclass", [DT(2020, 1, 1), datetime(2021, 1, 1)]),
                    ("IntEnum in float vector", [Color.RED, 2.5])]:
    v = Vector(data)
    before = v.schema()
    try:
        v[0] = v[0]
        print(f"{label}: dtype {before!r}: write-back accepted, dtype now {v.schema()!r}")
        if v.schema() != before:
            bad += 1
    except Exception as e:
        bad += 1
        print(f"{label}: dtype {before!r}: write-back of {data[0]!r} REFUSED: {type(e).__name__}: {e}")
# same through a table cell
t = Table({'c': [Color.RED, Color.BLUE]})
try:
    t[0, 'c'] = t[0, 'c']
except Exception as e:
    bad += 1
    print("table cell write-back REFUSED:", type(e).__name__, e)
sys.exit(1 if bad else 0)
