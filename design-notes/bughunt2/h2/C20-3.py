# C20: "repr ... never misstates shape, dtype or data"
# Float cells are printed with "%g" (6 significant digits) unless they are whole numbers.  Values
# with more digits are shown as a DIFFERENT number, in the worst case as a whole number without the
# ".0" that the same repr uses to mark genuinely whole floats: 100000.5 -> "100000",
# 999999.9 -> "1e+06", 1234567.25 -> "1.23457e+06"; distinct values become indistinguishable.
import sys, warnings
warnings.simplefilter("ignore")
from serif import Vector
vals = [100000.5, 100000.0, 999999.9, 1234567.25, 1234567.75, 0.1234567891]
v = Vector(vals)
r = repr(v); print(r)
shown = [s.strip() for s in r.split("\n")[:len(vals)]]
bad = 0
for x, s in zip(vals, shown):
    if float(s) != x:
        bad += 1
        print(f"   stored {x!r} shown as {s!r}")
sys.exit(1 if bad else 0)
