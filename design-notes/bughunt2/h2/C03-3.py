# C03: "The schema a vector reports never lies about its elements: every non-None element belongs to
#       the reported kind ... and None occurs only when the schema says nullable. This holds for ...
#       every vector returned ... by a library operation"
# Vector.copy(new_values=...) is a public method (signature copy(self, new_values=None, name=...)).
# It stamps the OLD dtype on the new values without looking at them, so the returned vector's schema
# lies (strings and None in a non-nullable <int> vector), and the result cannot be written back.
import sys, warnings
warnings.simplefilter("ignore")
from serif import Vector
v = Vector([1, 2, 3], name="n")
w = v.copy(["a", None, 2.5])
print("schema:", w.schema(), "elements:", list(w))
lie = any(x is None or not isinstance(x, int) for x in w) and w.schema().kind is int and not w.schema().nullable
try:
    w[0] = w[0]
    print("write-back accepted")
except Exception as e:
    print("write-back refused:", type(e).__name__, e)
print(repr(w))
sys.exit(1 if lie else 0)
