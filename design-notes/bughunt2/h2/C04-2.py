# C04: "kinds join along bool<int<float<complex and date<datetime ... None only adds nullability ...
#       the results of arithmetic, joins ... are typed by the same rule applied to their values"
#       (C03 lists concatenation among the operations whose result dtype follows the rule)
# v << w between two Vector operands is typed by that rule ONLY IF at least one side is nullable:
# int << float, bool << int, date << datetime raise "Cannot concatenate two typesafe Vectors of
# different types", while the very same values as a list, or with one None anywhere, are joined along
# the ladder.  Whether the lattice applies thus depends on nullability / operand form.  Consequence:
# table << table (row append) fails when a column is <int> in one and <float> in the other.
import sys, warnings
warnings.simplefilter("ignore")
from serif import Vector, Table
from datetime import date, datetime
bad = 0
for label, f in [("Vector([1]) << Vector([2.5])", lambda: Vector([1]) << Vector([2.5])),
                 ("Vector([1]) << [2.5]        ", lambda: Vector([1]) << [2.5]),
                 ("Vector([1,None]) << Vector([2.5])", lambda: Vector([1, None]) << Vector([2.5])),
                 ("Vector([True]) << Vector([2])", lambda: Vector([True]) << Vector([2])),
                 ("Vector([date]) << Vector([datetime])", lambda: Vector([date(2020, 1, 1)]) << Vector([datetime(2020, 1, 1, 5)])),
                 ("Table({'a':[1]}) << Table({'a':[2.5]})", lambda: Table({'a': [1]}) << Table({'a': [2.5]}))]:
    try:
        r = f()
        print(label, "->", r.schema() if not isinstance(r, Table) else [c.schema() for c in r.cols()])
    except Exception as e:
        bad += 1
        print(label, "-> RAISED", type(e).__name__, e)
sys.exit(1 if bad else 0)
