# C20: "... and column headers show the stored names."  / "never misstates shape, dtype or data"
# Names are tested for truthiness (`if v._name:`, `col._name or ""`) instead of `is not None`, so a
# stored name that is falsy - 0, 0.0, False (non-string names are supported: Table({0: ..., 1: ...}),
# fix 7d38ae1) - is not shown: the table header prints '' for column 0 next to a correct 1 for
# column 1, and a vector named 0 prints no header line at all.
import sys, warnings
warnings.simplefilter("ignore")
from serif import Vector, Table
t = Table({0: [10, 20], 1: [30, 40]})
print("stored names:", t.column_names())
r = repr(t); print(r)
header = r.split("\n")[0].split()
bad = header != ['0', '1']
v0 = Vector([1, 2], name=0); v1 = Vector([1, 2], name=1)
print(repr(v0)); print(repr(v1))
if repr(v0).split("\n")[0].strip() != '0':
    bad = True
    print("-> vector named 0 shows no header, vector named 1 does")
sys.exit(1 if bad else 0)
