# C03: "None occurs only when the schema says nullable" / "every non-None element belongs to the
#       reported kind"
# (LOW: the quantifier speaks of inferred-dtype inputs; this is the explicit dtype= constructor route.)
# Vector(values, dtype=T) never looks at the values: a plain Python type always means NON-nullable,
# so the natural Vector([1.5, None], dtype=float) reports <float> while holding None, and
# Vector(['a'], dtype=int) reports <int>.  Nothing validates or coerces, and the lie survives
# copy()/slicing/sort_by().
import sys, warnings
warnings.simplefilter("ignore")
from serif import Vector
bad = 0
for data, dt in [([1.5, None], float), ([None, 1], object), (['a', 'b'], int)]:
    v = Vector(data, dtype=dt)
    s = v.sort_by().schema()
    lie = (any(x is None for x in v) and not v.schema().nullable) or any(x is not None and dt is not object and not isinstance(x, dt) for x in v)
    print(f"Vector({data!r}, dtype={dt.__name__}) -> schema {v.schema()!r}, after sort_by {s!r}, lie={lie}")
    bad += lie
sys.exit(1 if bad else 0)
