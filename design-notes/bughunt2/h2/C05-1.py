# C05: "The broadcast string, numeric and date methods and properties (v.upper(), v.bit_length(),
#       dates.year, dates + days) obey the same rule at every data size: element i of the result is
#       the method applied to element i"
# In-place promotion (date -> datetime, documented widening; "promotion keeps ..." C03/C18) changes
# the dtype but NOT the vector's class: a date vector that received a datetime by assignment still is
# a _Date, whose `+ int` and comparison overrides assume date elements.  Result: `v + 1` silently
# throws the time of day away (returns date objects), and `v == datetime`, `v < datetime` compare
# midnight of each element instead of the element - silently wrong booleans.  A vector built afresh
# from the very same elements behaves differently (raises for + int, compares correctly).
import sys, warnings
warnings.simplefilter("ignore")
from serif import Vector, Table
from datetime import date, datetime, timedelta
v = Vector([date(2020, 1, 1), date(2020, 1, 2)], name="d")
v[0] = datetime(2020, 1, 1, 5, 30)          # promotes the vector to <datetime>
fresh = Vector(list(v))
print("promoted:", type(v).__name__, v.schema(), list(v))
print("fresh   :", type(fresh).__name__, fresh.schema(), list(fresh))
bad = 0
r = v + 1
print("promoted + 1      ->", r.schema(), list(r))
expect = [x + timedelta(days=1) for x in v]
if list(r) != expect:
    bad += 1
    print("   expected (adding days to element i):", expect, " -- time of day lost, dtype <date>")
try:
    print("fresh + 1         ->", list(fresh + 1))
except Exception as e:
    print("fresh + 1         -> raises", type(e).__name__)
for label, f in [("== datetime(2020,1,1)", lambda x: x == datetime(2020, 1, 1)),
                 ("<  datetime(2020,1,1,3)", lambda x: x < datetime(2020, 1, 1, 3)),
                 ("== Vector([dt(2020,1,1), dt(2020,1,2)])", lambda x: x == Vector([datetime(2020, 1, 1), datetime(2020, 1, 2)]))]:
    a = list(f(v)); b = list(f(fresh))
    py = None
    print(f"promoted {label}: {a}   fresh: {b}")
    if a != b:
        bad += 1
# the same through a table column
t = Table({'d': [date(2020, 1, 1), date(2020, 1, 2)]})
t[0, 'd'] = datetime(2020, 1, 1, 5, 30)
print("table column after t[0,'d']=datetime:", t.d.schema(), "t + 1 ->", [list(c) for c in (t + 1).cols()])
sys.exit(1 if bad else 0)
