# C20: "column headers show the stored names"
# As soon as one column of a table has a name, every UNNAMED column (stored name None) is headed
# '' - exactly what a column whose stored name is the empty string gets.  The header therefore
# states a name ('') that is not stored, and None / '' cannot be told apart.
import sys, warnings
warnings.simplefilter("ignore")
from serif import Vector, Table
t = Table([Vector([1, 2]), Vector([3, 4], name=""), Vector([5, 6], name="z")])
print("stored names:", t.column_names())
r = repr(t); print(r)
header = r.split("\n")[0].split()
sys.exit(1 if header[0] == header[1] == "''" else 0)
