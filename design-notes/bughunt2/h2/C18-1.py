# C18: "copy, slicing, masking, sorting, in-place writes and promotion keep a vector's name" /
#      title "math drops them, structure keeps them"
# dropna() is pure structure (it is exactly the masking v[~v.isna()], which keeps the name, and its
# sibling fillna() keeps the name too), yet it returns an unnamed vector.
import sys, warnings
warnings.simplefilter("ignore")
from serif import Vector
v = Vector([1, None, 3], name="price")
print("v[~v.isna()].name :", repr(v[~v.isna()].name))
print("v.fillna(0).name  :", repr(v.fillna(0).name))
print("v.sort_by().name  :", repr(v.sort_by().name))
print("v.dropna().name   :", repr(v.dropna().name))
sys.exit(1 if v.dropna().name != "price" else 0)
