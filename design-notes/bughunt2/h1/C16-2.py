# C16: "A write that changes any element to an unequal value (other than pairs Python's own hash()
#       cannot tell apart, such as -1 and -2) changes the fingerprint of the vector"   (quantifier: all value pairs)
#
# The rolling hash reduces hash(x) modulo P = 2**61-1.  CPython's hash() of an int lies in (-P, P), so
# two ints whose hashes differ by exactly P -- e.g. -3 (hash -3) and P-3 (hash P-3) -- are told apart by
# hash() but not by the fingerprint.  Likewise None is mapped to the constant 0x9E3779B97F4A7C15, which
# collides with the int (0x9E3779B97F4A7C15 % P) although hash(None) differs from hash of that int.
import sys
from serif import Vector
P = (1 << 61) - 1
bad = 0
a, b = -3, P - 3
v = Vector([a, 5])
f0 = v.fingerprint()
v[0] = b
print("hash(-3) != hash(P-3):", hash(a) != hash(b), "| fingerprint changed:", v.fingerprint() != f0)
if hash(a) != hash(b) and a != b and v.fingerprint() == f0:
    bad += 1
n = 0x9E3779B97F4A7C15 % P
w = Vector([None, 5])
g0 = w.fingerprint()
w[0] = n
print("hash(None) != hash(n):", hash(None) != hash(n), "| fingerprint changed:", w.fingerprint() != g0)
if hash(None) != hash(n) and w.fingerprint() == g0:
    bad += 1
sys.exit(1 if bad else 0)
