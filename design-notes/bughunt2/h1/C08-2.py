# C08: "v[key] = value - for ... keys with a scalar or a same-length sequence - leaves the vector with
#       exactly the contents Python list assignment would produce ...; table cell, row, column and region
#       assignment do the same on the addressed cells only.  ... an incompatible value is rejected with
#       SerifTypeError"
#
# Column assignment through table item assignment, t[rows, col] = seq, accepts the same-length sequence
# only when it is a list or a tuple.  A Vector (e.g. another column: t[:, 'a'] = t.b), a range or any other
# sized sequence of perfectly compatible values is refused with
#   SerifTypeError: Unsupported assignment value type
# although the very same value is accepted by the column view (t.a[:] = t.b), by attribute assignment
# (t.a = t.b) and by ROW assignment (t[0] = Vector([...])).
import sys, warnings
warnings.simplefilter("ignore")
from serif import Vector, Table
bad = 0
def attempt(label, fn, t):
    global bad
    try:
        fn(); print(label, "-> ok", [list(c) for c in t.cols()])
    except Exception as ex:
        print(label, "-> REJECTED", type(ex).__name__, str(ex)[:70]); bad += 1
t = Table({'a': [1, 2, 3], 'b': [4, 5, 6]})
attempt("t[:, 'a'] = t.b            ", lambda: t.__setitem__((slice(None), 'a'), t.b), t)
attempt("t[:, 'a'] = Vector([7,8,9])", lambda: t.__setitem__((slice(None), 'a'), Vector([7, 8, 9])), t)
attempt("t[0:2, 0] = range(2)       ", lambda: t.__setitem__((slice(0, 2), 0), range(2)), t)
attempt("t[[True,False,True], 'a'] = Vector([0,0])", lambda: t.__setitem__(([True, False, True], 'a'), Vector([0, 0])), t)
n_bad = bad
print("-- the same values through the other routes:")
attempt("t.a[:] = t.b               ", lambda: t.a.__setitem__(slice(None), t.b), t)
attempt("t[:, 'a'] = [7, 8, 9]      ", lambda: t.__setitem__((slice(None), 'a'), [7, 8, 9]), t)
attempt("t[0] = Vector([0, 0])      ", lambda: t.__setitem__(0, Vector([0, 0])), t)
sys.exit(1 if n_bad else 0)
