# C07: "indexing follows Python sequence semantics" / "all integer indices"
# C02: "the i-th row obtained by indexing ... equals the tuple of the i-th values of its columns"
#
# An out-of-range integer row index on a table is not an error: t[100] (and t[-100]) on a 2-row table
# returns a Row object; the IndexError only surfaces later, when the row is iterated, printed or compared.
# (A list, or a Vector, raises at the indexing expression.)
import sys, warnings
warnings.simplefilter("ignore")
from serif import Table
t = Table({'a': [1, 2], 'b': [3, 4]})
bad = 0
for i in (2, 100, -3):
    try:
        r = t[i]
        print(f"t[{i}] returned a", type(r).__name__, "without error"); bad += 1
        try: tuple(r)
        except IndexError: print("   ... tuple(row) raises IndexError only now")
    except IndexError:
        print(f"t[{i}] raised IndexError")
sys.exit(1 if bad else 0)
