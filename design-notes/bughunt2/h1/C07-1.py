# C07: "On tables ... a requested column that does not exist is an error"
#
# t[i, 'name'] (and t[i]['name']) resolves the string with getattr() on the row view.  A string that is
# no column accessor but happens to be an attribute of Row/Vector is answered with that attribute
# instead of an error: t[0, 'sum'] returns a bound method, t[0, 'shape'] a tuple, t[0, 'T'] a vector;
# on an all-str table t[0, 'upper'] returns a MethodProxy.  (t['sum'] and t[0:1, 'sum'] do raise.)
import sys, warnings
warnings.simplefilter("ignore")
from serif import Table
t = Table({'a': [1, 2], 'b': [3, 4]})
bad = 0
for key in ('sum', 'shape', 'T', 'copy', 'fingerprint'):
    try:
        r = t[0, key]
        print(f"t[0, {key!r}] ->", repr(r)[:60].replace("\n", " "))
        bad += 1
    except Exception as e:
        print(f"t[0, {key!r}] raised", type(e).__name__)
for key in ('sum',):
    try:
        t[0:1, key]; print("t[0:1,'sum'] returned")
    except Exception as e:
        print("t[0:1, 'sum'] raised", type(e).__name__, "(as it should)")
s = Table({'p': ['x', 'y'], 'q': ['z', 'w']})
try:
    print("all-str table t[0,'upper'] ->", type(s[0, 'upper']).__name__); bad += 1
except Exception as e:
    print("raised", type(e).__name__)
sys.exit(1 if bad else 0)
