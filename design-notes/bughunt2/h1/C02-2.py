# C02: "At every moment every Table has columns of one common length equal to len(table), its shape is
#       (rows, columns), and the i-th row obtained by indexing or iteration equals the tuple of the i-th
#       values of its columns in column order. ... Input that would make a table ragged is rejected rather
#       than stored."   (quantifier: ... in-place updates (cell, row, column, region, ATTRIBUTE ASSIGNMENT ...))
#
# docs/invariants.md and docs/table-model.md: "nested tables are never allowed".
# Column replacement by attribute accepts a Table as the new column when its ROW count equals the table
# length (e.g. the one-column table other['x',] written by mistake for the column other['x']; the same
# happens with t >> {'n': other} and Table([other, vec])).  The nested table is stored, and from then on the
# outer table is no longer a rows x columns rectangle:
#   len(t)  -> number of COLUMNS (Table.__len__ switches on isinstance(first column, Table))
#   t.shape -> a 3-tuple
#   t[0]    -> the inner table, not row 0;  iteration yields len(t) "rows" that are not the rows
import sys, warnings
warnings.simplefilter("ignore")
from serif import Vector, Table
t = Table({'a': [1, 2, 3], 'b': [4, 5, 6]})
other = Table({'x': [7, 8, 9]})
bad = 0
try:
    t.a = other['x',]          # a 3-row, 1-column TABLE, not a column
    print("t.a = <3x1 table> accepted")
except Exception as ex:
    print("rejected:", type(ex).__name__, ex); sys.exit(0)
col_lens = [len(c) for c in t.cols()]
print("column lengths:", col_lens, "| len(t):", len(t), "| shape:", t.shape)
if len(t) != 3 or t.shape != (3, 2):
    bad += 1
r0 = t[0]
print("t[0] is a", type(r0).__name__)
rows = []
try:
    rows = [tuple(r) for r in t]
except Exception as ex:
    print("iteration raised", type(ex).__name__, str(ex)[:60])
print("rows by iteration:", len(rows))
# control: same-shaped plain vector is fine
u = Table({'a': [1, 2, 3], 'b': [4, 5, 6]}); u.a = other['x']; print("control (column, not table):", len(u), u.shape)
sys.exit(1 if bad else 0)
