# C07: "Comparison and logical operators return non-nullable boolean vectors computed elementwise by
#       Python's own comparison"   (quantifier: all vectors and tables)
#
# Comparing a table with ITSELF (t == t, t != t, t < t, t <= t ...) never returns: Table._elementwise_compare
# calls _check_duplicate(other), which deep-copies the operand when it is the same object, and
# copy.deepcopy of a Table recurses for ever (Table.__getattr__ is entered on the half-built copy before
# _column_map exists) -> RecursionError.  t == t.copy() works, and v == v on a plain vector works.
import sys, warnings
warnings.simplefilter("ignore")
from serif import Table, Vector
t = Table({'a': [1, 2], 'b': [3, 4]})
bad = 0
import operator
for name in ('eq', 'ne', 'lt', 'ge'):
    try:
        r = getattr(operator, name)(t, t)
        print(f"t {name} t ->", [list(c) for c in r.cols()])
    except RecursionError as e:
        print(f"t {name} t -> RecursionError"); bad += 1
print("t == t.copy() ->", [list(c) for c in (t == t.copy()).cols()])
v = Vector([1, 2]); print("v == v ->", list(v == v))
sys.exit(1 if bad else 0)
