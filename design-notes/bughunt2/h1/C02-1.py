# C02: "every Table has ... shape (rows, columns) ... transposing twice gives back the original cells"
#      (quantifier: all tables reachable by constructions from dicts, ..., transposes)
#
# A table with columns but no rows has shape (0, k).  Its transpose is built from its rows, of which there
# are none, so t.T is the 0x0 table (not k x 0) and t.T.T is the 0x0 table as well: the k columns are gone,
# len(t.T.T.cols()) != len(t.cols()).  (For every table with at least one row T.T restores the cells.)
import sys, warnings
warnings.simplefilter("ignore")
from serif import Table
t = Table({'a': [], 'b': [], 'c': []})
print("t.shape", t.shape, "| t.T.shape", t.T.shape, "| t.T.T.shape", t.T.T.shape)
bad = t.T.T.shape != t.shape
u = Table({'a': [1], 'b': [2], 'c': [3]})
print("1-row control:", u.shape, u.T.shape, u.T.T.shape)
sys.exit(1 if bad else 0)
