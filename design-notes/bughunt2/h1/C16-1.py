# C16: "A write that changes any element to an unequal value ... changes the fingerprint of the vector
#       and of every table containing it, and element order matters."
#      "fingerprint() is a function of current contents only"
#
# Table.fingerprint() is the same polynomial rolling hash applied twice: over the elements of each
# column and then over the column fingerprints, with the SAME base B.  The cell in column i, row j of an
# n x k table therefore carries the weight B**((k-1-i)+(n-1-j)): all cells on one anti-diagonal have the
# same weight, and permuting values along an anti-diagonal never changes the fingerprint.
#  * one table item assignment (a region write) that changes two cells to unequal values leaves
#    t.fingerprint() unchanged;
#  * two single-cell writes through live column views bring the fingerprint back to its old value
#    although the contents differ from the old contents (a cache keyed on the fingerprint goes stale);
#  * every square table has the fingerprint of its transpose, i.e. element order does not matter.
import sys, warnings
warnings.simplefilter("ignore")
from serif import Table

bad = 0
t = Table({'a': [1, 2], 'b': [3, 4]})
f0 = t.fingerprint()
t[0:2] = Table({'a': [1, 3], 'b': [2, 4]})          # one write: a[1] 2->3, b[0] 3->2
print("after region write cells:", [list(c) for c in t.cols()], "fingerprint changed:", t.fingerprint() != f0)
if [list(c) for c in t.cols()] == [[1, 3], [2, 4]] and t.fingerprint() == f0:
    bad += 1

t = Table({'a': [1, 2], 'b': [3, 4]})
f0 = t.fingerprint()
t.a[1] = 3
f1 = t.fingerprint()
t.b[0] = 2
f2 = t.fingerprint()
print("two cell writes: f0!=f1", f0 != f1, " f2==f0 (contents differ from the start):", f2 == f0)
if f2 == f0:
    bad += 1

u = Table({'x': [1, 2, 3], 'y': [4, 5, 6], 'z': [7, 8, 9]})
print("3x3 table vs its transpose, same fingerprint:", u.fingerprint() == u.T.fingerprint())
if u.fingerprint() == u.T.fingerprint():
    bad += 1
sys.exit(1 if bad else 0)
