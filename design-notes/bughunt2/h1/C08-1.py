# C08: "v[key] = value ... leaves the vector with exactly the contents Python list assignment would
#       produce ... A value of a wider compatible kind promotes the whole column ..., an incompatible value
#       is rejected with SerifTypeError"
#
# validate_scalar() compares type(value) EXACTLY with the column kind, while dtype inference (and the
# promotion fallback in __setitem__) classify by isinstance.  An instance of a subclass of the column's OWN
# kind -- a float subclass such as a numpy scalar, an IntEnum member, a str subclass, a date subclass -- is
# therefore rejected as "incompatible":  "Cannot set float in float vector. Promotion not supported."
# The same value is accepted by the constructor (Vector([1.5, F(2.5)]) is <float>), and is even accepted by
# an INT vector (which it promotes to float), so the rejection is not a deliberate rule.
import sys, enum, warnings
from datetime import date, datetime
warnings.simplefilter("ignore")
from serif import Vector, Table
class F(float): pass
class S(str): pass
class D(date): pass
class E(enum.IntEnum):
    A = 1
bad = 0
cases = [
    ("float vector  <- float subclass", Vector([1.5, 2.5]), F(3.5)),
    ("int vector    <- IntEnum member", Vector([1, 2]), E.A),
    ("str vector    <- str subclass", Vector(['a', 'b']), S('c')),
    ("date vector   <- date subclass", Vector([date(2020, 1, 1), date(2020, 1, 2)]), D(2021, 1, 1)),
    ("datetime vec  <- date subclass", Vector([datetime(2020, 1, 1), datetime(2020, 1, 2)]), D(2021, 1, 1)),
    ("complex vec   <- float subclass", Vector([1j, 2j]), F(3.5)),
]
for label, v, val in cases:
    ref = list(v); ref[0] = val
    print(label, "| constructor dtype with that value:", Vector(list(v) + [val]).schema(), end=" | ")
    try:
        v[0] = val
        print("accepted ->", list(v) == ref)
    except Exception as ex:
        print("REJECTED:", type(ex).__name__, ex); bad += 1
i = Vector([1, 2]); i[0] = F(3.5)
print("int vector <- float subclass: accepted, promoted to", i.schema(), list(i))
t = Table({'a': [1.5, 2.5]})
try:
    t[0, 'a'] = F(1.0); print("table cell accepted")
except Exception as ex:
    print("table cell t[0,'a'] = F(1.0) REJECTED:", type(ex).__name__, ex)
sys.exit(1 if bad else 0)
