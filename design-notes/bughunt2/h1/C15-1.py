# C15: "A vector that shares storage with no other live vector - fresh vectors, copies, slices, operation
#       results, TABLE COLUMNS, ... - is always writable"
# C01: "vectors assigned into a table as a column" are snapshots; the table constructor, >> and
#       attribute assignment of a Vector all copy.
#
# Attribute assignment of a TUPLE (t.x = tup) wraps the caller's tuple without copying it (Vector(tup)
# re-uses the tuple object), unlike Table({'x': tup}), t >> {'x': tup} and t.x = Vector(...), which copy.
# The table column then shares storage with every other Vector built over that tuple: the table cell can
# no longer be written (AliasError from t[0,'x'] = ..., t.x[0] = ...) and the unrelated vector `a`, which
# was freely writable before the table was touched, becomes unwritable as a side effect of `t.x = tup`.
import sys, warnings
warnings.simplefilter("ignore")
from serif import Vector, Table, AliasError
tup = (1, 2, 3)
a = Vector(tup)
t = Table({'x': [0, 0, 0]})
t2 = Table({'x': tup})            # copies: fine
t2[0, 'x'] = 9
t.x = tup                         # does not copy
bad = 0
for label, fn in (("t[0,'x'] = 9", lambda: t.__setitem__((0, 'x'), 9)),
                  ("t.x[0] = 9  ", lambda: t.x.__setitem__(0, 9)),
                  ("a[0] = 9    ", lambda: a.__setitem__(0, 9))):
    try:
        fn(); print(label, "ok")
    except AliasError:
        print(label, "-> AliasError"); bad += 1
sys.exit(1 if bad else 0)
