# C07: "v[mask] keeps exactly the positions where the mask is True, in order"
#       (quantifier: all vectors, all boolean masks of the right and of the wrong length)
#
# For an EMPTY vector the list mask of the right length is [].  e[[]] raises SerifTypeError instead of
# returning an empty vector (the list-mask test is `{type(e) for e in key} == {bool}`, which is false for
# the empty list), while the same selection spelled with a typed empty bool Vector, or a slice, works.
# An untyped empty Vector([]) used as the mask raises AttributeError ('NoneType' has no attribute 'kind').
import sys, warnings
warnings.simplefilter("ignore")
from serif import Vector
bad = 0
for e in (Vector([], dtype=int), Vector([1, 2])[0:0]):
    try:
        print("empty[[]] ->", list(e[[]]))
    except Exception as ex:
        print("empty[[]] raised", type(ex).__name__, "-", str(ex)[:70]); bad += 1
    print("empty[Vector([], dtype=bool)] ->", list(e[Vector([], dtype=bool)]))
    try:
        print("empty[Vector([])] ->", list(e[Vector([])]))
    except Exception as ex:
        print("empty[Vector([])] raised", type(ex).__name__, "-", str(ex)[:70])
sys.exit(1 if bad else 0)
