# C12: "Whole-column reductions on a vector holding at least one non-None value agree with
# aggregating that column as a single group."
#
# Vector.stdev() squares the deviations as (x-m)*(x-m), aggregate()/window() as (v-mean)**2.
# float.__pow__ goes through C pow(), which is not always correctly rounded, so x**2 != x*x for
# roughly 1 float in 1000, and the two routes return standard deviations that differ in the last
# bit for ordinary data.  (Only a 1-ulp difference - it matters only if "agree" means "==".)
import sys, warnings
warnings.simplefilter('ignore')
from serif import Table, Vector

vals = [25.310408226257294, 31.759880115454763]
whole = Vector(vals).stdev()
agg = list(Table({'v': vals}).aggregate(Vector([1, 1]), stdev_over='v')._underlying[1])[0]
print('Vector.stdev()      :', repr(whole))
print('aggregate stdev_over:', repr(agg))
sys.exit(1 if whole != agg else 0)
