# C12 (also C13): "Each built-in aggregate equals the textbook function over that group's
# non-None values in row order - ... sample standard deviation ..." and
# "Whole-column reductions on a vector holding at least one non-None value agree with
# aggregating that column as a single group."
#
# aggregate()/window() compute the squared deviation as (v - mean) ** 2.  float ** 2 raises
# OverflowError instead of returning inf, so stdev_over crashes for any group in which some
# |v - mean| exceeds ~1.34e154, although all inputs are finite floats and the textbook sample
# standard deviation is finite too (1.414e200 here; statistics.stdev agrees).  The whole-column
# reduction Vector.stdev() uses (x-m)*(x-m) and returns inf on the same data, so the two
# "agreeing" routes do not even fail the same way: one returns a value, the other raises.
import sys, statistics, warnings
warnings.simplefilter('ignore')
from serif import Table, Vector

vals = [1e200, -1e200]
t = Table({'g': [1, 1], 'v': vals})
print('textbook stdev      :', statistics.stdev(vals))
whole = Vector(vals).stdev()
print('Vector.stdev()      :', whole)
bad = False
for name in ('aggregate', 'window'):
    try:
        r = getattr(t, name)('g', stdev_over='v')
        print(name, 'stdev_over  :', list(r._underlying[1]))
    except Exception as e:
        print(name, 'stdev_over  : raised', type(e).__name__, e)
        bad = True
sys.exit(1 if bad else 0)
