# C12: "Each built-in aggregate equals the textbook function over that group's non-None values
# ... sample standard deviation".
#
# For an int column the mean is turned into a float and every value is converted to float when
# the deviation v - mean is taken, so for ints beyond 2**53 the deviations are lost completely:
# the group [10**17, 10**17 + 2] has sample standard deviation sqrt(2) = 1.4142135623730951
# (statistics.stdev gives exactly that), the library reports 0.0 - a 100 % error, not a
# rounding error - while sum_over / mean_over / min / max on the same column are exact.
# (Vector.stdev() has the same defect, so the two routes agree with each other, both wrong.)
import sys, statistics, warnings
warnings.simplefilter('ignore')
from serif import Table, Vector

vals = [10**17, 10**17 + 2]
t = Table({'g': ['a', 'a'], 'v': vals})
expected = statistics.stdev(vals)
got = list(t.aggregate('g', stdev_over='v')._underlying[1])[0]
gotw = list(t.window('g', stdev_over='v')._underlying[1])
print('textbook:', expected)
print('aggregate stdev_over:', got, ' window:', gotw, ' Vector.stdev():', Vector(vals).stdev())
print('sum/mean on the same column are exact:', list(t.aggregate('g', sum_over='v', mean_over='v')._underlying[1]),
      list(t.aggregate('g', sum_over='v', mean_over='v')._underlying[2]))
sys.exit(1 if abs(got - expected) > 1e-6 else 0)
