# C17 exploration on patched tree
import warnings, random, itertools, re, keyword
warnings.simplefilter("ignore")
from serif import *
from serif.naming import _get_reserved_names
bad=[]
def note(*a):
    if len(bad) < 30: bad.append(a)
pool=['a','A','a b','a_b','a__1','a__1_','_a_','sum','Sum','sum_','cols','col','col1_','col_1','col1','1a','', None,'é','x__0','t','T','class','copy','name','__','a__','a___2','column names','count','Column_Names','col__1','colx_','9','a.b','a-b','index','join','max']
reserved=_get_reserved_names()
public=set(n for cls in (Vector,Table) for n in dir(cls) if not n.startswith('_'))
random.seed(6)
n=0
def check(names):
    global n
    n+=1
    cols=[Vector([i], name=nm) for i,nm in enumerate(names)]
    try: t=Table(cols)
    except Exception as e: note('ctor',names,type(e).__name__); return
    m=t._build_column_map()
    d=dir(t)
    if len(m)!=len(names): note('not-distinct',names,m); return
    for acc,idx in m.items():
        if not acc.isidentifier() or not re.fullmatch(r'[a-z][a-z0-9_]*',acc): note('not-ident',names,acc)
        if acc in public or acc in reserved: note('shadows',names,acc)
        if acc not in d: note('not-in-dir',names,acc)
        try:
            if getattr(t,acc) is not t.cols()[idx]: note('wrong-col',names,acc,idx)
        except AttributeError as e: note('getattr-fails',names,acc,str(e)[:50])
        try:
            t2=Table([Vector([i], name=nm) for i,nm in enumerate(names)])
            t2[0,acc]=777
            hit=[i for i,c in enumerate(t2.cols()) if list(c)==[777]]
            if hit!=[idx]: note('setitem-wrong',names,acc,idx,hit)
        except Exception as e: note('setitem-fails',names,acc,type(e).__name__,str(e)[:50])
        try:
            r=t[0]
            if getattr(r,acc)!=idx: note('row-attr-wrong',names,acc,idx,getattr(r,acc))
        except Exception as e: note('row-attr-fails',names,acc,type(e).__name__,str(e)[:60])
    if t.column_names()!=list(names): note('stored-changed',names,t.column_names())
    for nm in set(x for x in names if isinstance(x,str)):
        first=names.index(nm)
        try:
            if t[nm] is not t.cols()[first]: note('str-index-not-first',names,nm,first,[i for i,c in enumerate(t.cols()) if c is t[nm]])
        except Exception as e: note('str-index-fails',names,nm,type(e).__name__)
    # repr dot row
    s=repr(t)
    lines=s.split('\n')
    dots=[l for l in lines if l.strip().startswith('.') ]
    if dots:
        toks=dots[0].split()
        shown=[tk[1:] for tk in toks if tk!='...']
        for tk in shown:
            if tk not in m: note('repr-dot-not-accessor',names,tk,m)
for w in (1,2,3):
    for names in itertools.product(pool, repeat=w):
        if w==3 and random.random()>0.08: continue
        check(list(names))
for _ in range(800):
    check([random.choice(pool) for _ in range(random.randint(9,14))])
print('tables',n,'bad',len(bad))
from collections import Counter
print(Counter(b[0] for b in bad))
for b in bad[:15]: print(b)
