# C14 (low confidence; `reverse` of Vector.sort_by is documented as a bool):
#   "None keys come last (first with na_last=False) whatever the direction ... and Vector.sort_by obeys
#    the same contract."
# Vector.sort_by decides where None goes with `na_last != reverse` and then hands `reverse` to sorted(),
# which accepts any truthy object. For a truthy value other than True/1 (2, 'yes', [True] - the per-key
# form Table.sort_by accepts for one key) the comparison says "different", the None flag is not flipped,
# and the descending sort puts None FIRST although na_last=True. Table.sort_by refuses reverse=2 with
# SerifTypeError and handles reverse=[True] correctly.
import sys, warnings
warnings.simplefilter('ignore')
from serif import Table, Vector
v = Vector([3, None, 1])
ref = list(v.sort_by(reverse=True))                      # [3, 1, None]
bad = False
for rv in (1, 2, 'yes', [True]):
    got = list(v.sort_by(reverse=rv))
    print('Vector.sort_by(reverse=%r) -> %r' % (rv, got))
    if got != ref:
        bad = True
print('Table.sort_by(reverse=[True])  ->', list(Table({'v': [3, None, 1]}).sort_by('v', reverse=[True]).v))
print('VIOLATION' if bad else 'ok')
sys.exit(1 if bad else 0)
