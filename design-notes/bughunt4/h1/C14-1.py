# C14 (low confidence; probably outside the quantifier because na_last is documented as a bool):
#   "None keys come last (first with na_last=False) whatever the direction ... one to three sort keys
#    given by name or vector with every combination of per-key direction and na_last"
# Table.sort_by validates a per-key `reverse` list (length, type) but takes `na_last` by truthiness only:
# a per-key list such as na_last=[False] or [False, False] is silently read as True, so None goes LAST
# although every entry says "first". (Vector.sort_by does the same: [False] != False is True.)
import sys, warnings
warnings.simplefilter('ignore')
from serif import Table, Vector
t = Table({'k': [3, None, 1, None, 2]})
want = list(t.sort_by('k', na_last=False).k)            # [None, None, 1, 2, 3]
got1 = list(t.sort_by('k', na_last=[False]).k)
got2 = list(t.sort_by(['k', 'k'], reverse=[False, False], na_last=[False, False]).k)
got3 = list(Vector([3, None, 1]).sort_by(na_last=[False]))
print('na_last=False          ->', want)
print('na_last=[False]        ->', got1)
print('na_last=[False, False] ->', got2)
print('Vector na_last=[False] ->', got3)
bad = got1 != want or got2 != want or got3 != [None, 1, 3]
print('VIOLATION' if bad else 'ok')
sys.exit(1 if bad else 0)
