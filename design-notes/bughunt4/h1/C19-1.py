# C19 (low confidence; a limit of the csv module rather than of serif's own code):
#   "read_csv returns a table with ... one row per data record; each cell is ... else the stripped string"
#   QUANTIFIER: "all tables of cell texts ..."
# A cell longer than csv.field_size_limit() (131072 characters by default) makes read_csv raise the raw
# _csv.Error "field larger than field limit (131072)" instead of returning the cell; read_csv neither
# raises the limit nor converts the error into a Serif error.
import sys, io, warnings
warnings.simplefilter('ignore')
from serif import read_csv
text = 'a,b\n' + 'x' * 200000 + ',1\n'
try:
    t = read_csv(io.StringIO(text, newline=''))
    ok = len(t) == 1 and len(t.a[0]) == 200000
    print('read', t.shape, 'cell length', len(t.a[0]))
    sys.exit(0 if ok else 1)
except Exception as e:
    print('read_csv raised', type(e).__module__ + '.' + type(e).__name__ + ':', e)
    print('VIOLATION')
    sys.exit(1)
