# C07: "... v[mask] keeps exactly the positions where the mask is True, in order, keeping dtype kind and
#       name. On tables the same row selection is applied to every column alike ..."
#      QUANTIFIER "all vectors and tables, ... all boolean masks of the right and of the wrong length"
# A mask built from data - Vector([x > 0 for x in values]) - is, for empty data, the dtype-less empty
# vector Vector([]).  For an empty vector / a zero-row table that IS the mask of the right length and it
# selects nothing, but __getitem__ (and __setitem__) dereference key.schema().kind unconditionally and
# crash with AttributeError: 'NoneType' object has no attribute 'kind'.  The typed empty masks
# (Vector([], dtype=bool), Vector([]) > 1) work.  Used as a wrong-length mask on a non-empty vector it
# gives the same AttributeError instead of a length / type error.  (Same family as the earlier fixes for
# <<, >>, dropna and date + on vectors without a dtype.)
import sys, warnings
warnings.simplefilter('ignore')
from serif import Vector, Table

values = []                                   # empty input data
mask = Vector([x > 0 for x in values])        # -> Vector([]) : no dtype
bad = False
cases = [
    ('Vector([])[mask]',              lambda: Vector(values)[mask]),
    ("Vector([], dtype=int)[mask]",   lambda: Vector([], dtype=int)[mask]),
    ("Vector([1, 2])[0:0][mask]",     lambda: Vector([1, 2])[0:0][mask]),
    ("zero-row table[mask]",          lambda: Table({'a': [], 'b': []})[mask]),
    ("Table({'a': [1, 2]})[0:0][mask]", lambda: Table({'a': [1, 2]})[0:0][mask]),
    ("Vector([])[mask] = 5",          lambda: Vector(values).__setitem__(mask, 5)),
]
for label, f in cases:
    try:
        r = f()
        print(f'{label:34} -> ok, {len(r) if r is not None else 0} rows')
    except AttributeError as e:
        print(f'{label:34} -> AttributeError: {e}')
        bad = True
print('typed empty masks work:', len(Vector([])[Vector([], dtype=bool)]), len(Vector([])[Vector([]) > 1]))
print('VIOLATION' if bad else 'ok')
sys.exit(1 if bad else 0)
