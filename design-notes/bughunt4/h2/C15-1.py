# C15: "... a write is refused with AliasError only while another live vector really shares that storage.
#       A vector that shares storage with no other live vector - fresh vectors, COPIES, slices, ... - is
#       always writable, no matter how many other vectors and tables were created ... before."
# C08: "... an assignment that fails for any reason ... leaves the vector exactly as it was"
# C01: "A write through any Vector or Table handle changes only that object"
#
# copy.deepcopy(table) gives a table whose columns are new, unregistered Vector objects (deepcopy of a
# tuple of immutables returns the very same tuple, and __init__ is not run).  Such a copy is perfectly
# writable - copy-on-write keeps every write local.  But when a multi-column table assignment on the
# copy FAILS, Table.__setitem__ rolls the already written columns back with
# _ALIAS_TRACKER.register(col, id(old_tuple)): the copy's column is now registered as a second owner of
# the tuple the original's column is registered for.  From then on BOTH tables refuse every write to that
# column with AliasError - the original table has become read-only because a write to a copy of it failed.
import sys, copy, warnings
warnings.simplefilter('ignore')
from serif import Table, AliasError

t = Table({'a': [1, 2], 'b': ['x', 'y']})

d0 = copy.deepcopy(t)
d0[1, 'a'] = 5                      # a deep copy is writable, and the write stays local
assert list(t.a) == [1, 2] and list(d0.a) == [1, 5]
del d0

d = copy.deepcopy(t)
try:
    d[0] = [9, 5]                   # column a accepts 9, column b refuses 5 -> rolled back
except TypeError as e:
    print('failed row assignment on the copy:', type(e).__name__)
assert [list(c) for c in d.cols()] == [[1, 2], ['x', 'y']]

bad = False
for label, write in [
    ("copy:     d[0, 'a'] = 9", lambda: d.__setitem__((0, 'a'), 9)),
    ("original: t.a[0] = 7   ", lambda: t.a.__setitem__(0, 7)),
    ("original: t[0] = [7,'q']", lambda: t.__setitem__(0, [7, 'q'])),
]:
    try:
        write(); print(label, '-> ok')
    except AliasError:
        print(label, '-> AliasError (spurious: this write was accepted before the failed assignment)')
        bad = True
print('VIOLATION' if bad else 'ok')
sys.exit(1 if bad else 0)
