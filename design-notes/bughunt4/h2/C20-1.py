# C20: "repr ... never misstates shape, dtype or data ... column headers show the stored names."
# C17: "The accessor names a table advertises (tab completion through dir(), the dot row of its repr) ...
#       Every column is reachable by exactly one advertised, valid accessor name"
#
# Non-string names are accepted and shown by their repr (Table({1: ...}) has the header `1` and the
# accessor .c1) - except when the name is falsy.  display.py tests the name with `if col._name` /
# `col._name or ""`, so a column named 0, 0.0 or False is treated as UNNAMED by repr: its header cell is
# '' (a vector named 0 gets no header line at all) and the dot row advertises .col0_, while the table's
# own column map / dir() advertises .c0 (resp. .false) for the same column.
# Table({0: [...], 1: [...], 2: [...]}) - e.g. a dict built with enumerate - prints  ''  1  2.
# The same `name == "..."` confusion hides the name row of a table whose only named column is called '...'.
import sys, warnings
warnings.simplefilter('ignore')
from serif import Table, Vector

bad = False
t = Table({0: [1, 2], 1: [3, 4], 2: [5, 6]})
r = repr(t)
print(r)
header, dots = r.splitlines()[0], r.splitlines()[1]
advertised_by_dir = sorted(a for a in dir(t) if a in ('c0', 'c1', 'c2', 'col0_'))
print('stored names       :', t.column_names())
print('header row         :', header.split())
print('dot row of repr    :', dots.split())
print('dir() advertises   :', advertised_by_dir)
if header.split() != ['0', '1', '2']:
    print('-> header does not show the stored name 0'); bad = True
if dots.split()[0] != '.c0':
    print('-> repr advertises', dots.split()[0], 'but dir() advertises .c0 for the same column'); bad = True

rv = repr(Vector([1, 2], name=0))
print(repr(rv), '  vs name=5:', repr(repr(Vector([1, 2], name=5))))
if rv.splitlines()[0].strip() != '0':
    print('-> vector named 0 has no header line'); bad = True

rd = repr(Table({'...': [1, 2]}))
print(rd)
if "'...'" not in rd.splitlines()[0] and '...' not in rd.splitlines()[0]:
    print("-> column named '...' : the name row is missing"); bad = True
print('VIOLATION' if bad else 'ok')
sys.exit(1 if bad else 0)
