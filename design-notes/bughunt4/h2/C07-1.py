# C07: "... indexing follows Python sequence semantics ... On tables the same row selection is applied to
#       every column alike, a requested column that does not exist is an error ..."
# Table.__getitem__ ends without a final `raise`: every key it does not recognise falls off the end and
# the indexing expression silently evaluates to None - no error, no table.  That includes row selections
# that every single column accepts (an index list: col[[0, 2]] works on each column, t[[0, 2]] is None,
# although t[Vector([0, 2])] works) and keys that Vector.__getitem__ refuses cleanly with SerifTypeError
# (a nullable bool vector such as a <bool?> column used as mask, a float, None).
# `kept = t[t.flag]` with one None in the flag column therefore gives kept = None instead of an error.
import sys, warnings
warnings.simplefilter('ignore')
from serif import Table, Vector

t = Table({'a': [1, 2, 3], 'flag': [True, None, False]})
bad = False
for label, key in [('index list [0, 2]', [0, 2]), ('nullable bool column t.flag', t.flag), ('float 1.5', 1.5), ('None', None)]:
    try:

        try:
            t.a[key]; col = 'column accepts it'
        except Exception as e:
            col = 'column raises ' + type(e).__name__
        r = t[key]
        print(f'{label:30} -> t[key] = {r!r}   ({col})')
        if r is None:
            bad = True
    except Exception as e:
        print(f'{label:30} -> raises {type(e).__name__} (fine)')
print('t[Vector([0, 2])] works:', [list(c) for c in t[Vector([0, 2])].cols()])
print('VIOLATION' if bad else 'ok')
sys.exit(1 if bad else 0)
