# C01: "A write through any Vector or Table handle changes only that object ... A write that cannot be
#       kept local is refused with AliasError and changes nothing."
# A Row (t[i], or the object yielded by `for row in t`) is a Vector handle: it supports arithmetic,
# comparison, slicing, copy().  Item assignment through it is neither carried out locally (as for every
# other vector) nor refused with AliasError: Vector.__setitem__ runs its whole validation and then dies
# on `self._underlying = new_tuple` with AttributeError: property '_underlying' of 'Row' object has no
# setter.  Nothing changes, but the documented refusal (AliasError / a Serif* error) is not what the
# caller gets; `except AliasError` / `except SerifError` do not catch it.
import sys, warnings
warnings.simplefilter('ignore')
from serif import Table, AliasError, SerifError

t = Table({'a': [1, 2], 'b': [3, 4]})
r = t[0]
bad = False
try:
    r[0] = 99
    print('write accepted; row =', tuple(r), ' table =', [list(c) for c in t.cols()])
except (AliasError, SerifError) as e:
    print('refused cleanly with', type(e).__name__)
except Exception as e:
    print('refused with', type(e).__name__, '-', e)
    bad = True
print('table unchanged:', [list(c) for c in t.cols()] == [[1, 2], [3, 4]])
print('VIOLATION' if bad else 'ok')
sys.exit(1 if bad else 0)
