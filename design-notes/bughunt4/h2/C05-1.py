# C05: "The broadcast string, numeric and date methods and properties (v.upper(), ...) obey the same rule
#       at every data size: element i of the result is the method applied to element i, None staying None."
#      QUANTIFIER "... every str/int/float/date method or property reachable through attribute
#       broadcasting, WITH ARBITRARY ARGUMENTS"
# str.format takes arbitrary keyword arguments, `self` included: '{self} {x}'.format(self=1, x=2) is
# '1 2' in Python.  _String.format is declared `def format(self, *args, **kwargs)`, so the keyword
# `self` collides with the bound instance and the broadcast call raises TypeError instead of
# formatting each element.  (MethodProxy.__call__(self, *args, **kwargs) has the same shape.)
import sys, warnings
warnings.simplefilter('ignore')
from serif import Vector

v = Vector(['{self} and {x}', None, 'plain'])
expected = [None if s is None else s.format(self=1, x=2) for s in v]
print('python, element by element:', expected)
try:
    got = list(v.format(self=1, x=2))
    print('vector.format(self=1, x=2)  :', got)
    bad = got != expected
except TypeError as e:
    print('vector.format(self=1, x=2)  : TypeError:', e)
    bad = True
print('VIOLATION' if bad else 'ok')
sys.exit(1 if bad else 0)
