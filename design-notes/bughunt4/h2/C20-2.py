# C20: "repr() of any vector or table returns a string without raising ... data longer than the preview
#       limit shows exactly its first and last rows around an ellipsis while shorter data shows every row"
#      QUANTIFIER "... all set_repr_rows settings"
# set_repr_rows() stores whatever it is given.  With a negative setting the preview half-size is
# negative, so `vals[:half] + ['...'] + vals[len(vals)-half:]` lists every row except the last |half|
# ones, then an ellipsis, and nothing after it: a 6-element vector is printed as 0 1 2 3 4 ... - the
# last row is silently missing although the footer says 6 elements.  With a float setting (3.0) the
# half-size is a float and every later repr() of a vector or table raises TypeError.
import sys, warnings
warnings.simplefilter('ignore')
from serif import Vector, Table, set_repr_rows

bad = False
v = Vector([0, 1, 2, 3, 4, 5])
try:
    set_repr_rows(-1)
    lines = repr(v).splitlines()
    print('set_repr_rows(-1):', lines)
    body = [l.strip() for l in lines if l.strip() and not l.startswith('#')]
    if body != ['0', '1', '2', '3', '4', '5'] and not (body[0] == '0' and body[-1] == '5'):
        print('-> the last row is not shown (and no setting was refused)'); bad = True
    set_repr_rows(3.0)
    try:
        print(repr(Table({'a': [1, 2, 3]})))
    except Exception as e:
        print('set_repr_rows(3.0): repr(table) raises', type(e).__name__, '-', e); bad = True
finally:
    set_repr_rows(None)
print('VIOLATION' if bad else 'ok')
sys.exit(1 if bad else 0)
