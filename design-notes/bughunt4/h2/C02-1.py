# C02: "... the i-th row obtained by indexing or iteration equals the tuple of the i-th values of its
#       columns in column order."
# Table.__iter__ yields ONE Row object and re-points it (Row.set_index) at every step, so every row that
# was obtained earlier silently turns into the current row.  Anything that keeps the yielded rows -
# list(t), sorted(t, key=...), max(t, key=...), zip(t, t[1:]), a list comprehension of rows - ends up
# with rows that are not the i-th row: list(t)[0] is the LAST row, and max(t, key=...) returns the last
# row whatever the key says.  (Row objects obtained by indexing, t[i], are fine.)
import sys, warnings
warnings.simplefilter('ignore')
from serif import Table

t = Table({'a': [1, 2, 3], 'b': ['x', 'y', 'z']})
expected = [(1, 'x'), (2, 'y'), (3, 'z')]

rows = list(t)                                   # i-th row obtained by iteration
got = [tuple(r) for r in rows]
print('list(t)            ->', got, ' expected', expected)

best = max(t, key=lambda r: -r.a)                # row with the smallest a, i.e. (1, 'x')
print('max(t, key=-a)     ->', tuple(best), ' expected', (1, 'x'))

pairs = [(tuple(p), tuple(q)) for p, q in zip(t, t[1:])]   # zip two tables row by row: fine (two iterators)
it = iter(t); first = next(it); second = next(it)
print('first after next() ->', tuple(first), ' expected', (1, 'x'))

bad = got != expected or tuple(best) != (1, 'x') or tuple(first) != (1, 'x')
print('VIOLATION' if bad else 'ok')
sys.exit(1 if bad else 0)
