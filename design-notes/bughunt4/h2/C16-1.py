# C16: "A write that changes any element to an unequal value (other than pairs Python's own hash()
#       cannot tell apart, such as -1 and -2) changes the fingerprint of the vector and of every table
#       containing it"      QUANTIFIER "... all positions, all value pairs"
# Element hashes are reduced modulo P = 2**61 - 1 inside the rolling hash.  Python's hash() of a
# negative number is negative (hash(-5) == -5, hash of a negative float likewise), and -h and P - h are
# the same residue, so the fingerprint cannot tell x from y whenever hash(x) - hash(y) == +-P although
# Python's hash() does tell them apart.  The internal constants used for None and NaN
# (0x9E3779B97F4A7C15, 0xDEADBEEFCAFEBABE) are reduced the same way and so coincide with the hashes of
# two ordinary ints.  (Low practical weight - the partner values are huge - but the pairs are inside
# "all value pairs" and are not pairs Python's hash() cannot tell apart.)
import sys, warnings
warnings.simplefilter('ignore')
from serif import Vector, Table

P = (1 << 61) - 1
pairs = [(-5, P - 5), (255.0, -2305843009213693696.0), (None, 0x9E3779B97F4A7C15 % P), (float('nan'), 0xDEADBEEFCAFEBABE % P)]
bad = False
for old, new in pairs:
    v = Vector([1, old, 3]) if old is not None else Vector([1, None, 3], dtype=int).copy()
    t = Table({'c': list(v)})
    f_v, f_t = v.fingerprint(), t.fingerprint()
    v[1] = new
    t[1, 'c'] = new
    same = (v.fingerprint() == f_v, t.fingerprint() == f_t)
    ph_old = None if old is None else hash(old)
    print(f'{old!r:>8} -> {new!r:<24} python hashes {ph_old} / {hash(new)}   fingerprint unchanged: vector {same[0]}, table {same[1]}')
    if any(same):
        bad = True
print('VIOLATION' if bad else 'ok')
sys.exit(1 if bad else 0)
