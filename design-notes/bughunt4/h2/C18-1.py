# C18: "... copy, slicing, masking, sorting, in-place writes and promotion keep a vector's name ...
#       Tables built from vectors, stacked with >>, filtered, sliced, sorted or joined keep each source
#       column's stored name in order"   (C01 likewise promises that copies keep "contents, names and dtypes")
#
# Attribute broadcasting (Vector.__getattr__) answers EVERY attribute the element class has - also the
# protocol hook copy.deepcopy() looks up on the instance: getattr(v, '__deepcopy__').  decimal.Decimal
# and fractions.Fraction define __deepcopy__, so for a <Decimal>/<Fraction> vector the lookup returns a
# MethodProxy and copy.deepcopy(v) is "broadcast": it returns Vector([x.__deepcopy__(memo) for x in v]) -
# a fresh, UNNAMED vector - instead of a copy of v.  copy.deepcopy(table) therefore silently drops the
# name of every Decimal/Fraction column (dt.price -> AttributeError), while int/str/date columns keep
# theirs.  copy.copy() and pickle keep the name for all of them.
import sys, copy, warnings
from decimal import Decimal
from fractions import Fraction
warnings.simplefilter('ignore')
from serif import Vector, Table

bad = False
for label, vals in [('int', [1, 2]), ('Decimal', [Decimal('1.5'), Decimal('2')]), ('Fraction', [Fraction(1, 2), Fraction(3, 4)])]:
    v = Vector(vals, name='price')
    d = copy.deepcopy(v)
    t = Table({'id': [1, 2], 'price': vals})
    dt = copy.deepcopy(t)
    print(f'{label:9} vector deepcopy name: {d.name!r:8} table deepcopy column names: {dt.column_names()}')
    if d.name != 'price' or dt.column_names() != ['id', 'price']:
        bad = True
print('VIOLATION' if bad else 'ok')
sys.exit(1 if bad else 0)
