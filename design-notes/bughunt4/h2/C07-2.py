# C07: "... row selection and column selection commute: t[rows][cols] equals t[cols][rows]"
#      QUANTIFIER "... all column-name tuples including missing and repeated names"
# For the empty column-name tuple the two orders differ: t[rows][()] is the 0x0 table, but t[()] is a
# table without columns, and row-selecting THAT gives a plain empty Vector for a slice or an index
# vector and raises AssertionError for a (right-length) boolean mask.
# Root cause: row selection on a table WITHOUT columns (also the 0x0 result of an empty join, Table(()).copy(),
# Table(())[0:1]) does not return a table: Vector(()) is built from an empty column tuple.
import sys, warnings
warnings.simplefilter('ignore')
from serif import Table, Vector

t = Table({'a': [1, 2, 3], 'b': [4, 5, 6]})
bad = False
for label, rows in [('slice 0:2', slice(0, 2)), ('mask', Vector([True, False, True])), ('index vector', Vector([0, 2]))]:
    def ev(f):
        try:
            r = f(); return (type(r).__name__, getattr(r, 'shape', None))
        except Exception as e:
            return ('raises ' + type(e).__name__,)
    a = ev(lambda: t[rows][()]); b = ev(lambda: t[()][rows])
    print(f'{label:13} t[rows][()] = {a}   t[()][rows] = {b}')
    bad |= a != b
print('VIOLATION' if bad else 'ok')
sys.exit(1 if bad else 0)
