import warnings, gc
warnings.simplefilter("ignore")
from serif import *
from serif.typing import infer_dtype
from datetime import date, datetime
def show(label, f):
    try:
        r = f()
        print(label, "->", r if not isinstance(r, Vector) else (list(r), r.schema(), r.name))
    except Exception as e:
        print(label, "!!", type(e).__name__, str(e)[:100])

print("== C04")
show("infer [None,1]", lambda: infer_dtype([None,1]))
show("infer [1,None]", lambda: infer_dtype([1,None]))
show("infer [True,1]", lambda: infer_dtype([True,1]))
show("infer [1,True]", lambda: infer_dtype([1,True]))
show("infer [1,'a']", lambda: infer_dtype([1,'a']))
show("infer [date, datetime]", lambda: infer_dtype([date(2020,1,1), datetime(2020,1,1)]))
show("infer [None,None]", lambda: infer_dtype([None,None]))
show("infer []", lambda: infer_dtype([]))
show("Vector([])", lambda: Vector([]).schema())
show("obj promote int", lambda: DataType(object).promote_with(1))
show("str promote bytes", lambda: DataType(str).promote_with(b'a'))
class Foo: pass
class Bar(Foo): pass
show("Foo,Bar", lambda: infer_dtype([Foo(),Bar()]))
show("Foo,Foo", lambda: infer_dtype([Foo(),Foo()]))
show("tuple promote", lambda: infer_dtype([(1,),(2,)]))
import decimal
show("decimal,int", lambda: infer_dtype([decimal.Decimal(1),1]))
show("int,decimal", lambda: infer_dtype([1, decimal.Decimal(1)]))
show("bool, float", lambda: infer_dtype([True, 1.0]))
show("bool, complex", lambda: infer_dtype([True, 1j]))

print("== C07")
v = Vector([1,2,3,4,5], name='x')
show("v[5:9]", lambda: v[5:9])
show("v[2:2]", lambda: v[2:2])
show("v[::-1]", lambda: v[::-1])
show("v[mask none]", lambda: v[[False]*5])
show("v[mask vec none]", lambda: v[v>10])
show("v[[]]", lambda: v[[]])
t = Table({'a':[1,2,3],'b':[4,5,6]})
show("t['a','missing']", lambda: t['a','missing'].column_names())
show("t['a','b']", lambda: t['a','b'].column_names())
show("t['b','a']", lambda: t['b','a'].column_names())
show("t[5:9]", lambda: (t[5:9].shape, [list(c) for c in t[5:9].cols()]))
show("t[mask none]", lambda: (t[t.a>10]).shape)

print("== C14")
show("Vector.sort_by rev", lambda: Vector([3,None,1,2]).sort_by(reverse=True))
show("Vector.sort_by rev na_first", lambda: Vector([3,None,1,2]).sort_by(reverse=True, na_last=False))
show("Vector.sort_by", lambda: Vector([3,None,1,2]).sort_by())

print("== C11")
L = Table({'k':[1,1,2],'x':[10,11,12]}); R = Table({'k':[1,2],'y':[5,6]})
for kind in ('inner_join','join','full_join'):
  for ex in ('one_to_one','many_to_one','one_to_many','many_to_many'):
    show(f"{kind} {ex} Ldup", lambda: len(getattr(L,kind)(R,'k','k',expect=ex)))
    show(f"{kind} {ex} Rdup", lambda: len(getattr(R,kind)(L,'k','k',expect=ex)))

print("== C16")
t = Table({'a':[1,2,3]})
f0 = t.fingerprint(); t.a[0]=99; show("fp changed after t.a[0]=99", lambda: (f0 != t.fingerprint(), t.fingerprint()==Table({'a':[99,2,3]}).fingerprint()))
print("== C20")
show("repr nan", lambda: repr(Vector([1.0, float('nan')])))
show("repr inf", lambda: repr(Vector([1.0, float('inf')])))
